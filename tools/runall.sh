#!/bin/bash
# run every registered check in the given tier (default quick), sequentially
tier=${1:-quick}
cd /verif
rc=0
for p in $(python3 -c "import json; print(' '.join(c['property_id'] for c in json.load(open('MANIFEST.json'))['checks']))"); do
  ./check $p $tier > /tmp/runall-$p.log 2>&1; e=$?
  echo "$p $tier exit=$e $(tail -1 /tmp/runall-$p.log)"
  [ $e -ne 0 ] && rc=1
done
exit $rc
