#!/usr/bin/env python3
"""Run the repository's pinned suite (hooks off) and compare with BASELINE.json's stable set.
Exit 0 iff every stable test still passes."""
import json, os, subprocess, sys
env = dict(os.environ, GOFLAGS="-mod=mod", GOPROXY="off", GOSUMDB="off", GOTOOLCHAIN="local")
base = json.load(open("/root/.vp/BASELINE.json"))
stable = set(base["stable_pass"])
p = subprocess.run(["go", "test", "-json", "-vet=off", "-count=1", "-timeout", "25m", "./..."], cwd="/repo", env=env,
                   stdout=subprocess.PIPE, stderr=subprocess.DEVNULL, text=True)
passed, failed = set(), set()
for line in p.stdout.splitlines():
    try:
        e = json.loads(line)
    except Exception:
        continue
    if e.get("Test") and e.get("Action") in ("pass", "fail"):
        k = e["Package"] + "::" + e["Test"]
        (passed if e["Action"] == "pass" else failed).add(k)
missing = sorted(stable - passed)
print("stable=%d passed=%d failed=%d stable_not_passed=%d" % (len(stable), len(passed), len(failed), len(missing)))
for m in missing[:50]:
    print("  NOT PASSED:", m)
subprocess.run(["git", "-C", "/repo", "status", "--short"])
sys.exit(1 if missing else 0)
