#!/opt/veriftools/pyvenv/bin/python3
import json, jsonschema, glob, sys
ok = True
try:
    jsonschema.validate(json.load(open('/verif/MANIFEST.json')), json.load(open('/root/.vp/MANIFEST.schema.json')))
except Exception as e:
    ok = False; print("MANIFEST:", str(e)[:500])
sch = json.load(open('/root/.vp/EVIDENCE.schema.json'))
for f in sorted(glob.glob('/verif/evidence/*.json')):
    try:
        jsonschema.validate(json.load(open(f)), sch)
    except Exception as e:
        ok = False; print(f, str(e)[:500])
print("valid" if ok else "INVALID")
sys.exit(0 if ok else 1)
