#!/usr/bin/env python3
"""Evaluate one seeded defect produced by a sub-agent.

  tools/seedeval.py <seed-out-dir> <worktree> <seed-id> <Cxx> [<Cyy> ...] [--tier quick|thorough]

1. In the agent's scratch worktree: the demonstration must PASS without the patch and FAIL with it.
2. Apply the patch to /repo, run ./check for the listed properties, undo the patch.
3. Store /verif/seeded/<seed-id>/{patch.diff, demo, meta.json} with the outcome.
"""
import json, os, re, shutil, subprocess, sys

ENV = dict(os.environ, GOFLAGS="-mod=mod", GOPROXY="off", GOSUMDB="off", GOTOOLCHAIN="local")

def sh(cmd, cwd=None, timeout=1800):
    r = subprocess.run(cmd, shell=True, cwd=cwd, env=ENV, stdout=subprocess.PIPE, stderr=subprocess.STDOUT, text=True, timeout=timeout)
    return r.returncode, r.stdout

def main():
    a = sys.argv[1:]
    tier = "quick"
    if "--tier" in a:
        i = a.index("--tier"); tier = a[i + 1]; del a[i:i + 2]
    out, wt, sid, props = a[0], a[1], a[2], a[3:]
    meta = json.load(open(os.path.join(out, "meta.json")))
    patch = os.path.join(out, "patch.diff")
    demo = meta["demo"]
    # destination of the demo file and the package to test
    demofile = [f for f in os.listdir(out) if f.endswith(".go")][0]
    m = re.search(r"cp\s+\S*" + re.escape(demofile) + r"\s+(\S+)", demo)
    dest = m.group(1).rstrip(";")
    if not dest.startswith("/"):
        dest = os.path.join(wt, dest)
    if dest.endswith("/") or not dest.endswith(".go"):
        dest = os.path.join(dest, "zz_seed_demo_test.go")
    pkgdir = os.path.dirname(dest)
    runm = re.search(r"-run\s+(\S+)", demo)
    runflag = "-run '%s'" % runm.group(1).strip("'\"") if runm else ""
    sh("git checkout -- . && git clean -fdq", cwd=wt)
    os.makedirs(pkgdir, exist_ok=True)
    shutil.copy(os.path.join(out, demofile), dest)
    rel = "./" + os.path.relpath(pkgdir, wt)
    rc0, o0 = sh("go test -vet=off -count=1 %s %s" % (runflag, rel), cwd=wt)
    rc, ap = sh("git apply %s" % patch, cwd=wt)
    if rc != 0:
        print("PATCH DOES NOT APPLY IN WORKTREE", ap); sys.exit(2)
    rc1, o1 = sh("go test -vet=off -count=1 %s %s" % (runflag, rel), cwd=wt)
    sh("git checkout -- . && git clean -fdq", cwd=wt)
    demo_ok = (rc0 == 0 and rc1 != 0)
    print("demo: without patch rc=%d, with patch rc=%d -> %s" % (rc0, rc1, "CONFIRMED" if demo_ok else "NOT CONFIRMED"))
    if not demo_ok:
        print(o0[-1500:]); print(o1[-1500:])
    # run checks against /repo with the patch
    st = sh("git -C /repo status --porcelain")[1].strip()
    if st:
        print("/repo is not clean:", st); sys.exit(2)
    rc, ap = sh("git -C /repo apply %s" % patch)
    how = "git apply"
    if rc != 0:
        rc, ap = sh("git -C /repo apply -3 %s" % patch)
        how = "git apply -3 (tree had moved on)"
        if rc != 0:
            sh("git -C /repo reset -q ; git -C /repo checkout -- .")
            print("PATCH DOES NOT APPLY TO /repo:", ap[-800:])
            how = None
    results = {}
    if how:
        try:
            rcb, ob = sh("go build ./...", cwd="/repo")
            for p in props:
                rc, o = sh("./check %s %s" % (p, tier), cwd="/verif", timeout=7200)
                viol = [l for l in o.splitlines() if l.startswith("VIOLATION")]
                detail = [l.strip() for l in o.splitlines() if l.strip().startswith("check=")]
                results[p] = {"exit": rc, "violations": len(viol), "first": (detail[0][:400] if detail else "")}
                print("  %s %s: exit=%d violations=%d %s" % (p, tier, rc, len(viol), detail[0][:200] if detail else ""))
        finally:
            sh("git -C /repo reset -q ; git -C /repo checkout -- . ; git -C /repo clean -fdq")
    d = os.path.join("/verif/seeded", sid)
    os.makedirs(d, exist_ok=True)
    shutil.copy(patch, os.path.join(d, "patch.diff"))
    shutil.copy(os.path.join(out, demofile), os.path.join(d, demofile))
    meta2 = dict(meta)
    meta2.update({"seed_id": sid, "demo_confirmed": demo_ok, "demo_without_patch_rc": rc0, "demo_with_patch_rc": rc1,
                  "applied_to_repo_with": how, "tier": tier, "checks": results,
                  "detected_by": sorted(p for p, r in results.items() if r["exit"] == 1),
                  "ran": "tools/seedeval.py: demo in scratch worktree with/without patch; patch applied to /repo, ./check <prop> %s, patch undone" % tier})
    json.dump(meta2, open(os.path.join(d, "meta.json"), "w"), indent=1)
    print("detected_by:", meta2["detected_by"])

if __name__ == "__main__":
    main()
