#!/usr/bin/env python3
"""Regenerates /verif/MANIFEST.json from the table below (kept next to the driver's CFG)."""
import json, os
ROOT = os.path.dirname(os.path.dirname(os.path.abspath(__file__)))
ALL = ["C%02d" % i for i in range(1, 21)]

CHECKS = {
 "C04": dict(
   technique="property-based testing: generated lexeme sequences vs reference lexer (by-construction expectations), metamorphic layout/case relation, exhaustive operator-pair enumeration; thorough tier adds coverage-guided native fuzzing (go test -fuzz over rapid.MakeFuzz) of the same generator and oracle",
   level="exploration",
   text="Generated-input search: lexeme sequences of the documented lexical grammar with every separator class; expected kinds, decoded values, exactly one EOF and comment texts are known by construction and cross-checked by an independent reference lexer; the same lexemes under two layouts/cases must read the same. All ordered operator/punctuation pairs are enumerated exhaustively. Absence of violations outside the explored cases is not established.",
   note="Trusted: the reference lexer and the generator's decoding tables (written from the docs); the observation function that splits compound keyword tokens; words outside the core keyword list may be typed either way.",
   design="4/C04"),
 "C05": dict(
   technique="property-based testing: generated texts with positions known by construction; positioned lexical-error injection; invariants over the token stream (order, containment); thorough tier adds coverage-guided native fuzzing (go test -fuzz over rapid.MakeFuzz) of the same generator and oracle",
   level="exploration",
   text="Generated-input search: every token, comment and end-of-input marker of generated texts is compared with the line:column the generator placed it at (exact where the line prefix is ASCII and tab-free, line number elsewhere), plus 1-based/ordering/containment invariants; lexical errors of eight families are planted at known offsets and the structured error's location is compared; parser error locations over single-token corruptions of generated statements. Not a proof: only generated layouts are covered.",
   note="Trusted: the generator's own offset bookkeeping; tab and non-ASCII columns are deliberately not asserted exactly (property text); a line comment's end may be its last character or the start of the next line.",
   design="4/C05"),
 "C03": dict(
   technique="property-based testing: grammar-directed statement generator with a model tree (round-trip text -> parse -> tree equality), random parenthesisation and keyword case; thorough tier adds coverage-guided native fuzzing (go test -fuzz over rapid.MakeFuzz) of the same generator and oracle",
   level="exploration",
   text="Generated-input search: a model tree is drawn first (typed expressions over every operator level, every SELECT clause, joins, set operations, CTEs, INSERT/UPDATE/DELETE with their clauses, MERGE with table or sub-query source and all WHEN forms, CREATE TABLE with column and table constraints, CREATE INDEX/VIEW/MATERIALIZED VIEW, DROP, TRUNCATE, REFRESH, seven ALTER TABLE operations, table partitioning, the MySQL forms REPLACE / ON DUPLICATE KEY UPDATE / MATCH AGAINST / SHOW / DESCRIBE) and rendered with required plus random redundant parentheses; gosqlx.Parse must accept and its tree must deep-equal the model tree built from the library's own node types (both directions: nothing lost, nothing invented). An exhaustive operator table (all sequences of one to three standard binary operators, bare, parenthesised, with NOT and unary minus: 11 206 statements) is compared with an independent precedence-climbing reference. A third sub-check fills 45 statement templates taken from the project's documents with generated operands and demands acceptance, the statement type and the presence of every operand sub-tree (thirteen rejected forms are listed findings); a fourth writes LIMIT / OFFSET / FETCH counts in drawn numeric spellings and compares the tree's numbers with the written ones. Not exhaustive beyond the generated cases.",
   note="Trusted: the model grammar and its AST conventions (pkg/sql/ast/doc.go, DESIGN appendix A); constructs no document promises (clauses after a FROM-less SELECT, implicit alias after a bare column, mixed INTERSECT precedence, the DDL forms listed in DESIGN.md 9.4) are not generated.",
   design="4/C03"),
 "C06": dict(
   technique="property-based testing: round-trip (serialise -> re-parse -> tree equality) and idempotence over generated statements x five serialisers x drawn option sets; thorough tier adds coverage-guided native fuzzing (go test -fuzz over rapid.MakeFuzz) of the same generator and oracle",
   level="exploration",
   text="Generated-input search: every G-SQL statement (queries, DML, MERGE, the modelled DDL) that the parser accepts is serialised by AST.SQL, AST.Format, gosqlx.Format, formatter.Format and the CLI SQLFormatter under drawn option sets; the output must be accepted, re-parse to the same tree (strings case-folded) and be a fixed point of the same serialiser. Exploration only; the cli serialiser is steered around one listed finding and ALTER statements around another (no serialiser exists for them).",
   note="Trusted: gosqlx.Parse as the reader on both sides (its own correctness is C03's business); case-folded tree comparison cannot see a change that only alters the case of a name.",
   design="4/C06"),
 "C07": dict(
   technique="property-based testing: differential over 17 parse/validate/recovery entry points and batch-vs-individual relation on generated inputs; thorough tier adds coverage-guided native fuzzing (go test -fuzz over rapid.MakeFuzz) of the same generator and oracle",
   level="exploration",
   text="Generated-input search: valid, hostile-layout, single-token-corrupted, multi-statement (stray semicolons) and lexical-soup inputs, each run through every convenience, byte, context, timeout, batch, low-level (plain/context/positions), validator and recovery entry point; verdicts, trees and error codes must agree pairwise; batch calls must equal the individual calls and name the first failing index. The three low-level statement loops are also compared under the same parser options (strict, dialect).",
   note="Trusted: astdump as tree equality; error code = Code of the *errors.Error reachable with errors.As; inputs made only of semicolons/blank/comments are excluded as the property says.",
   design="4/C07"),
 "C13": dict(
   technique="property-based testing: generated rejected inputs x 15 failing entry points against a validity predicate on the returned error (structure, code family vs independently known failing stage, location range, cause chain) plus a repeat-call determinism relation; thorough tier adds coverage-guided native fuzzing (go test -fuzz over rapid.MakeFuzz) of the same generator and oracle",
   level="exploration",
   text="Generated-input search over rejected inputs: single-token corruptions of generated statements (one-line and multi-line), 13 kinds of lexical error after a valid prefix, soup, nesting beyond the depth limit in five constructs, bad statement starts; through every entry point that can fail. Each reported error must unwrap to *errors.Error with a documented code of the right family (the failing stage is known from running the tokenizer alone), a non-empty message, an in-range location when set, a reachable cause, and must be identical when the call is repeated after unrelated parses.",
   note="Trusted: the code registry read from pkg/errors/errors.go of the tree under test; stage classification by a tokenizer-only run; byte/token limit violations are exercised in C02.",
   design="4/C13"),
 "C12": dict(
   technique="property-based testing: generated scripts of valid/corrupted segments with strict parsing of each segment as the reference model; differential (recovery vs strict) on arbitrary soup; hang budget for termination; thorough tier adds coverage-guided native fuzzing (go test -fuzz over rapid.MakeFuzz) of the same generator and oracle",
   level="exploration",
   text="Generated-input search: (a) token soup, statement-keyword soup and multiply-corrupted statements: recovery parsing must return within a generous budget and report an error exactly when strict parsing fails; (b) scripts S1;...;Sn of flat generated statements, each kept or corrupted: recovery must return exactly the trees strict parsing gives for the well-formed segments, in order, and one error per malformed segment naming a token of that segment. Termination is decided by budget, not proved.",
   note="Trusted: gosqlx.Parse of a segment alone as the classifier; parser token indices equal generated token indices (GROUPING SETS, the one compound token that is not re-split, is not generated here).",
   design="4/C12"),
 "C14": dict(
   technique="property-based testing: differential between ast.Inspect's visit multiset and a reflection walk over every exported field (generated trees), plus an exhaustive marker sweep over every (node type, node-holding field) of a registry generated from the sources, and a metamorphic check of a traversal-based transform (ReplaceTable leaves no occurrence of the old name at any nesting depth); thorough tier adds coverage-guided native fuzzing (go test -fuzz over rapid.MakeFuzz) of the same generator and oracle",
   level="exploration",
   text="Generated-input search: for trees parsed from generated statements the multiset of (type, content) of nodes handed to ast.Inspect's callback must equal the multiset of node-typed values reachable by reflection through every exported field - missing and extra nodes are both violations. Exhaustive sub-check: for every node type of package ast and every field that can hold a node, a marker planted in that field must be visited (the registry is regenerated from the tree under test, so new types and fields are covered).",
   note="Trusted: 'part of the tree' = reachable through exported fields; node = T or *T implements ast.Node; empty-interface payload fields are not node holders. One listed finding (window frame bounds) is pinned by the existing suite and therefore not repaired.",
   design="4/C14"),
 "C08": dict(
   technique="stateful property-based testing: generated operation histories on one tokenizer and one parser with a fresh, identically configured instance as the reference model (probe comparison after the history); thorough tier adds coverage-guided native fuzzing (go test -fuzz over rapid.MakeFuzz) of the same generator and oracle",
   level="exploration",
   text="Generated-history search: sequences of tokenize / parse (five entry points, valid, invalid, failing deep inside nesting, over the depth limit, cancelled at a drawn poll) / option changes / Reset / Release / pool Put->Get on one instance, followed by probe calls whose tokens, comments, dialect, tree and full error text must equal those of fresh instances configured as the current holder did. Probes include an input exactly as deep as a fresh parser accepts (so a leak of one recursion level shows), a dialect-sensitive statement and stray semicolons. Pool identity is forced by pinning the goroutine and pausing GC, and counted.",
   note="Trusted: sync.Pool returns the just-released object on a pinned goroutine (measured per run: pool_identity_hit_* classes); Release and Tokenizer.Reset are documented to keep configuration.",
   design="4/C08"),
 "C11": dict(
   technique="property-based testing with an owned schedule: a counting context.Context fires at the k-th poll; per generated input every poll index is enumerated exhaustively (up to 400, sampled above) with both context errors; thorough tier adds coverage-guided native fuzzing (go test -fuzz over rapid.MakeFuzz) of the same generator and oracle",
   level="exploration",
   text="Generated-input search x exhaustive enumeration of cancellation points per input: the input is first run with a context that never fires (result must equal the context-free call; P polls are counted), then with a context that turns done at every poll index k < P, with Canceled and DeadlineExceeded, through gosqlx.ParseWithContext, Tokenizer.TokenizeContext and Parser.ParseContext: no value may be returned, the error must match exactly that context error under errors.Is, at most 3 further polls may follow, and the tokenizer/parser used must answer a depth-limit probe exactly like fresh instances.",
   note="Trusted: the library reads a context only through Err() (a Done()-based wait would not be counted); 'bounded further work' is measured in polls, not time.",
   design="4/C11"),
 "C15": dict(
   technique="property-based testing: generator-known name sets as the reference model (set equality both ways), metamorphic re-layout; thorough tier adds coverage-guided native fuzzing (go test -fuzz over rapid.MakeFuzz) of the same generator and oracle",
   level="exploration",
   text="Generated-input search: the statement generator records every table written in a table position (FROM, JOIN, DML and MERGE targets and sources, any nesting depth), every column reference and every function call it places; ExtractTables/TablesQualified/Columns/ColumnsQualified/Functions and ExtractMetadata must return exactly those sets - nothing missing, nothing extra (aliases, synthetic join names, string contents), no duplicates - and the same sets for a hostile re-layout of the same tokens.",
   note="Trusted: the generator's bookkeeping; unqualified table names are compared on their last part; CTE column lists and FOR UPDATE OF names are accepted either way.",
   design="4/C15"),
 "C16": dict(
   technique="property-based testing: metamorphic relation over a payload x position x layout x threshold grid (findings at the canonical position must be contained in the findings at every other position/layout), exhaustive payload x position grid, invariants on counts/thresholds/no-mutation/scan independence; thorough tier adds coverage-guided native fuzzing (go test -fuzz over rapid.MakeFuzz) of the same generator and oracle",
   level="exploration",
   text="Generated-input search plus an exhaustive payload x position grid: each documented payload (3 tautologies, 6 time-delay/dangerous calls, 4 UNION probes) is first scanned as the top-level WHERE condition (must carry its documented class and severity), then at 49 condition/expression/UNION positions (incl. MERGE ON and WHEN conditions, MERGE SET/INSERT values, view bodies) up to nesting depth 2, in single- and multi-statement scripts, under random whitespace, letter case and redundant parentheses: the same (pattern, severity) must be reported; raising the minimum severity must filter exactly; counts must equal the list; the tree must not change; A,B,A scans must agree. The text scanner ScanSQL gets the whitespace/case invariance and threshold/count checks.",
   note="Trusted: the payload catalogue's documented class/severity (from the scanner's own tables/docs); containment on (pattern, severity) pairs, extra findings allowed; comments are not used as layout for the regex scanner.",
   design="4/C16"),
 "C09": dict(
   technique="stateful property-based testing (hold/release/churn histories with snapshot invariants and pool-draw distinctness) plus an exhaustive (pooled type, field) cleanliness sweep over a generated registry, and a model-equality parse after polluting every pool; thorough tier adds coverage-guided native fuzzing (go test -fuzz over rapid.MakeFuzz) of the same generator and oracle",
   level="exploration",
   text="(a) Exhaustive sweep: for every pooled type with a Put accessor and every exported field, a value with that field (and once every field) filled with arbitrary content is released; the released object and the next Get (same object on a pinned goroutine) must equal a fresh value. (b) Generated statements are parsed after fully populated values of every pooled type were released through PutX/PutExpression/ReleaseAST; the tree must still equal the model tree. (c) Generated histories of parse/tokenize/derive-and-hold, release, churn on this and other goroutines, pooled-tokenizer reuse and direct pool draws: every held value must keep its snapshot, and values drawn from the pools must be pairwise distinct and not part of any tree still held.",
   note="Trusted: astdump as deep equality (capacities ignored); pool identity by goroutine pinning (counted). Goroutine interleavings in the churn action are the runtime's, not enumerated.",
   design="4/C09"),
 "C18": dict(
   technique="stateful property-based testing: generated JSON-RPC message histories against a real server over in-memory pipes with a UTF-16 reference document model; exhaustive enumeration of edit ranges on small documents; thorough tier adds coverage-guided native fuzzing (go test -fuzz over rapid.MakeFuzz) of the same generator and oracle",
   level="exploration",
   text="Generated-history search: up to 30 framed messages per history (document lifecycle with full/incremental/batched edits whose ranges are in range, past the end, inverted or negative, over ASCII, BMP and astral text; every request kind at arbitrary positions; unknown methods; requests without params; wrongly typed envelopes; malformed JSON; bad headers). After every message a sentinel request acts as a barrier and the invariants are checked: server alive, every outgoing frame well-formed with an exact Content-Length, exactly one response per request id and none otherwise, the server's copy of each document equals the reference model, and the last published diagnostics match the recovery parse of the model text in version, number and line. All (startLine, startChar, endLine, endChar) combinations over three small documents with an astral character are enumerated exhaustively.",
   note="Trusted: sequential message handling (barrier); the reference model's reading of the protocol's clamping rules; edits outside the protocol (negative, inverted, inside a surrogate pair) only have to be survived.",
   design="4/C18"),
 "C17": dict(
   technique="property-based testing: token-sequence preservation (round-trip through the tokenizer), idempotence and re-lint relations over generated hostile layouts for every rewriter; differential of each layout rule against a reference predicate computed with the reference lexer; thorough tier adds coverage-guided native fuzzing (go test -fuzz over rapid.MakeFuzz) of the same generator and oracle",
   level="exploration",
   text="Generated-input search over texts with hostile layout (double spaces, tabs, mixed indentation, trailing blanks, blank-line runs, CRLF, multi-line literals containing keywords/blanks, keyword-spelled quoted identifiers, comments containing quotes and keywords, non-ASCII). Rewriters: each auto-fixable rule's Fix alone, all fixes in the CLI's order, and the language server's textDocument/formatting applied through a real server. For each: token sequence and comment texts preserved (unquoted words case-insensitively), fixed point, no remaining violation of an applied rule, every violation location inside the text. Each layout rule (L001, L003, L005, L010, L007) must report exactly the (line, column) set of a reference predicate written from docs/LINTING_RULES.md and evaluated with the reference lexer's knowledge of literal and comment spans.",
   note="Trusted: the library tokenizer as token reader (C04), the reference lexer for spans; blanks after a line comment's last visible character count as layout; one listed finding (backslash-escaped quotes) is pinned by the existing suite.",
   design="4/C17"),
 "C19": dict(
   technique="property-based testing of the real binary with fault injection: generated file sets and flag combinations against the library verdict (differential), metamorphic batch-vs-individual and print/-i/--check/-o/stdin consistency, and exhaustive enumeration of write-failure byte offsets (RLIMIT_FSIZE) and kill points (strace SIGKILL injection before every file-related system call) for both in-place writers",
   level="fault_enumeration",
   text="The gosqlx binary is rebuilt from the tree under test and run in scratch directories. (1) cli_verdict: 1-4 generated files or one text given on stdin or as inline argument (valid, multi-statement, corrupted, empty, stray semicolons, dialect-only syntax) x validate/format/lint/parse flag combinations: exit status 0 iff the library accepts every input under the same options (lint: no failing-severity finding by the same rule set), check-only modes leave hash/mode/mtime untouched, JSON and SARIF reports parse, have consistent counts and name exactly the failing inputs. (2) format_modes_consistent: text output == concatenation of per-file outputs == what -i writes; --check exits 0 iff -i changes nothing; -o and stdin agree; a file whose processing fails is never rewritten. (3) inplace_faults: for format -i and lint --auto-fix, for EVERY k in 0..len(new) the write fails after exactly k bytes (short write then EFBIG, SIGXFSZ blocked and default), and the process is SIGKILLed before its n-th file-related system call for every n; afterwards the file is the complete original or the complete new content.",
   note="Trusted: RLIMIT_FSIZE and strace injection as fault models (a kill lands on a system-call boundary; a torn single write() inside the kernel is modelled by the short-write case); the library verdict as reference; empty and blank-only files are outside the compared verdict because the library's own entry points disagree on them; whether the CLI formatter supports a statement type the parser accepts is not compared.",
   design="4/C19"),
 "C01": dict(
   technique="property-based testing and fuzzing for totality: generated byte strings (hostile-dictionary soup, model-grammar statements valid/prefix/corrupted/mutated, repository corpus plain/mutated/spliced, nesting towers, raw bytes) and generated parser-token sequences no tokenizer produces, each driven through every public entry point and every tree consumer, with panics, hangs and process death as the oracle; runs contained in child processes",
   level="exploration",
   text="large_inputs: every C20 input family at 1 MiB and (six families in quick, all in thorough) at MaxInputSize-1/+0/+1 through all text entry points in a child. Each generated case runs ~45 entry points (tokenizer x3, gosqlx.* x10, parser.* x8, model-token parser methods, formatter, both scanners, linter and every rule's Fix) and, on every tree or recovered statement list obtained, 16 consumers (SQL, Format x3, CLI formatter x2, Inspect, Walk, Extract* x6, Scan x2, ReleaseAST), crossed with 12 dialect values and strict mode. Token cases (EOF missing, every prefix, Type-less, re-typed, random, EOF in the middle, empty, nil; position mappings shorter/longer/nil; arbitrary spans) go through Parser.Parse/ParseContext/ParseWithRecovery/ParseWithPositions and the five model-token methods. A panic fails the case and names the entry point; a call that does not return in 60 s is a hang; the whole run is journaled inside a child process so a runtime fatal error is attributed to the case that caused it and re-confirmed alone.",
   note="Trusted: the 60 s hang budget (generated inputs need milliseconds); MustParse is documented to panic and is excluded; inputs near the 10 MiB limit are exercised in C02/C20, not here.",
   design="4/C01"),
 "C02": dict(
   technique="property-based testing over a catalogue of self-embedding productions: exhaustive enumeration of every production x context x depth class plus random mixed cycles, a stateful history check of the limit on reused/pooled/recovery parsers against a fresh-parser oracle, exact-boundary enumeration of the byte and token limits, deep cases run in child processes under a goroutine stack cap",
   level="exploration",
   text="57 productions (expression->expression, expression->query, query->expression, query->query, table-reference forms) under 18 statement contexts. A case is a kind-consistent cycle of productions repeated to depth d. Oracle: the same chain at depth 2 and 12 must be accepted (otherwise the family is outside the accepted language and is listed, not reported); at d > MaxRecursionDepth every entry point returns an error; bracket-free continuations (UNION ALL chains) need not be rejected but must survive; depths >= 20000 up to the largest the size/token limits allow run in a child under debug.SetMaxStack(32 MiB), which must survive. limit_over_history: sequences of towers on ONE parser (reused, pooled, recovery script) must get the fresh-parser verdict each time. size_and_token_limits: MaxInputSize-1/+0/+1 bytes in five shapes and MaxTokens-1/+0/+1 tokens in three layouts x six kinds of trailing bytes: E1006/E1007 exactly when over the limit, through four entry points.",
   note="Trusted: the catalogue was built by reading the parser's recursive call paths and cannot be proved complete (DESIGN.md section 7); a level is one production application, unparenthesised junctions are parenthesised so the count is conservative; serialisers are outside the stack cap because they legitimately recurse on tree depth.",
   design="4/C02"),
 "C10": dict(
   technique="property-based testing of concurrent rounds under the race detector: generated workloads and per-goroutine operation plans run in a -race child with a spin-barrier release, checked against a sequential oracle table and exact metrics accounting",
   level="exploration",
   text="A case is a workload of 6-30 generated inputs of distinct sizes and a plan of 2-64 goroutines x 1-12 steps over 20 operations (tokenize x2, five parse entry points, recovery, three formatters, extract, two scanners, lint, keyword-suggestion cache, metrics.GetStats, SetSpan/GetSpan on own nodes, direct metrics.Record*), GOMAXPROCS in {1,2,4,16}, optional Gosched between steps; a quarter of the plans are metrics-focused (1-2 recording steps per goroutine released together, 60 rounds). Phase 1 computes every (operation, input) answer and its metrics delta sequentially (and checks the answer is reproducible); phase 2 runs 3-60 rounds with metrics.Reset between them. Oracles: each concurrent result equals the sequential one; the child (GORACE=halt_on_error=1) is not ended by a race report or fatal error; after quiescence operation/error/byte/parse/pool counters, ErrorsByType, MinQuerySize and MaxQuerySize equal the sums/extremes of the sequential deltas.",
   note="Trusted: the Go scheduler samples interleavings (not enumerated; DESIGN.md section 7); the race detector's happens-before model; replay of a schedule-dependent failure re-runs the round rather than the schedule.",
   design="4/C10"),
 "C20": dict(
   technique="property-based testing of asymptotic cost: an exhaustively enumerated catalogue of input families plus generated families (composition x generated unit, optionally numbered so every repetition is a distinct lexeme), each measured on a geometric ladder of sizes with deterministic statement-execution counts from coverage counters, allocation totals and CPU time; metamorphic oracle: doubling the input at most about doubles the cost",
   level="exploration",
   text="18 grammar compositions (select lists, operator chains, IN lists, VALUES rows, statements, UNION chains, CTE lists, join chains ...) and 41 lexical families (comments, literals, identifiers, blanks, tabs, CRLF, chains of casts/subscripts, over-limit nesting, late errors, and 16 families whose repetitions are all distinct lexemes) x 18 entry points (tokenize, four parse variants, five serialisers, extract, inspect, three scanners, lint, lint fixes, release). Each (family, size) runs in a probe binary built with -cover -covermode=atomic: counters are cleared before and written after every entry point, and the cost is the sum over the library's blocks of statements x executions. The cost ratio per input doubling must stay below 2.35 (statements) / 2.6 (bytes allocated) on the two largest steps; CPU time decides only from 100 ms and ratio 3.3 twice. Text-only entry points get a second ladder up to 1 MiB (thorough 4 MiB) where time inside the standard library shows as CPU time.",
   note="Trusted: sizes stop at 64 KiB / 1 MiB (quick) and 512 KiB / 4 MiB (thorough), beyond which linearity is extrapolated; statement counts do not see time spent inside the standard library (covered by the CPU rule on the large ladder only); a ladder cut short by its time budget is judged on the sizes that finished.",
   design="4/C20"),
}

def main():
    checks = []
    for pid in ALL:
        if pid not in CHECKS:
            continue
        c = CHECKS[pid]
        checks.append({
            "property_id": pid,
            "quick_cmd": "./check %s quick" % pid,
            "thorough_cmd": "./check %s thorough" % pid,
            "evidence_file": "/verif/evidence/%s.json" % pid,
            "replay_cmd_template": "./check --replay {path}",
            "engine": "hx-rapid",
            "level_claimed": {"category": c["level"], "text": c["text"], "design_ref": c["design"]},
            "level_note": c["note"],
            "technique": c["technique"],
        })
    na = [{"property_id": p, "reason": "check not built yet (work in progress in this session; DESIGN.md section 4 describes the planned check)"} for p in ALL if p not in CHECKS]
    m = {
        "version": 1,
        "setup_cmd": "./check --setup",
        "hooks": {
            "guard": "verif",
            "enable": "no hooks: checks build /repo unmodified through a replace directive (go test -c in /verif/harness); the guard name is reserved",
            "baseline_off_cmd": "cd /repo && GOFLAGS=-mod=mod GOPROXY=off GOSUMDB=off GOTOOLCHAIN=local go test -json -vet=off -count=1 -timeout 25m ./...",
            "source_commits": [],
            "add_only": True,
        },
        "engines": [{"name": "hx-rapid", "path": "/verif/harness", "serves_properties": [c["property_id"] for c in checks],
                     "kind_free_text": "Go test binaries per property (pgregory.net/rapid v1.3.0 generators and shrinking, native go fuzzing in thorough tiers) driven by /verif/check (python3 stdlib): shards by seed, merges measured evidence, matches KNOWN_FINDINGS.json"}],
        "checks": checks,
        "not_applicable": na,
        "notes": "VERIF_SEED selects the rapid seeds of every shard; exit 2 = inconclusive (harness trouble), never a violation. Known findings: /verif/KNOWN_FINDINGS.json (open entries are replayed at start and print KNOWN-FINDING while they still reproduce; fixed entries are regression cases).",
    }
    json.dump(m, open(os.path.join(ROOT, "MANIFEST.json"), "w"), indent=1)
    print("MANIFEST.json: %d checks, %d not_applicable" % (len(checks), len(na)))

if __name__ == "__main__":
    main()
