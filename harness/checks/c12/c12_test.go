package c12

import (
	"errors"
	"fmt"
	goerrors "github.com/ajitpratap0/GoSQLX/pkg/errors"
	"strings"
	"testing"
	"time"

	"github.com/ajitpratap0/GoSQLX/pkg/gosqlx"
	"github.com/ajitpratap0/GoSQLX/pkg/sql/ast"
	"github.com/ajitpratap0/GoSQLX/pkg/sql/parser"
	"pgregory.net/rapid"
	"verif/gen/corrupt"
	"verif/gen/lexgen"
	"verif/gen/sqlgen"
	"verif/internal/astdump"
	"verif/internal/hx"
)

func TestMain(m *testing.M) { hx.Main(m, "C12") }

const hangBudget = 30 * time.Second // legitimate calls on these inputs take microseconds

// recover runs recovery parsing under the hang budget.
func recoverParse(sql string) (stmts []ast.Statement, errs []error, returned bool) {
	returned = hx.WithDeadline(hangBudget, func() { stmts, errs = gosqlx.ParseWithRecovery(sql) })
	return
}

// ---------------------------------------------------------------- termination + iff (any input)

type SoupCase struct {
	SQL string `json:"sql"`
}

func oracleSoup(c SoupCase) error {
	_, errs, ok := recoverParse(c.SQL)
	if !ok {
		return fmt.Errorf("NONTERMINATION: recovery parsing did not return within %s on a %d-byte input", hangBudget, len(c.SQL))
	}
	_, perr := gosqlx.Parse(c.SQL)
	if (perr != nil) != (len(errs) > 0) {
		return fmt.Errorf("strict parsing err=%v but recovery parsing reports %d errors", short(perr), len(errs))
	}
	return nil
}

func short(err error) string {
	if err == nil {
		return "<nil>"
	}
	s := err.Error()
	if i := strings.IndexByte(s, '\n'); i >= 0 {
		s = s[:i]
	}
	if len(s) > 160 {
		s = s[:160]
	}
	return s
}

var soupCheck = hx.NewCheck("recovery_terminates_iff", oracleSoup)

func TestRecoveryTerminatesIff(t *testing.T) {
	hx.Rule("recovery_terminates_iff", "arbitrary token soup (G-LEX sequences, corrupted G-SQL statements, statement-keyword soup) with at least one non-semicolon token; ParseWithRecovery must return (30 s budget for inputs that take microseconds) and report >= 1 error exactly when gosqlx.Parse fails; non-trivial = input is rejected; distinct = token kinds")
	f := lexgen.Features{StringStartsWithDoubledQuote: false, TrailingComment: true, Comments: true}
	kwSoup := []string{"SELECT", "FROM", "WHERE", ";", "(", ")", "INSERT", "INTO", "VALUES", "UPDATE", "SET", "DELETE", "WITH", "AS", "a", "t1", "1", ",", "=", "JOIN", "ON", "CREATE", "TABLE", "DROP", "UNION", "CASE", "WHEN", "END", "*", "MERGE", "USING", "MATCH", "AGAINST", "INTERVAL"}
	soupCheck.Rapid(t, hx.N(120000, 1200000), func(rt *rapid.T) SoupCase {
		var s string
		switch rapid.IntRange(0, 3).Draw(rt, "soupkind") {
		case 0:
			lx := lexgen.GenLexemes(rt, f, 15)
			s = lexgen.Render(lx, lexgen.GenSeps(rt, f, lx, "s")).Src + " x1"
		case 1:
			n := rapid.IntRange(1, 25).Draw(rt, "nkw")
			var ws []string
			for i := 0; i < n; i++ {
				ws = append(ws, rapid.SampledFrom(kwSoup).Draw(rt, "kw"))
			}
			s = strings.Join(ws, " ") + " z"
		default:
			g := sqlgen.New(rt, sqlgen.AllFeatures())
			toks := sqlgen.Statement(g).Toks
			for k := rapid.IntRange(1, 3).Draw(rt, "ncorrupt"); k > 0 && len(toks) >= 2; k-- {
				toks = corrupt.Apply(rt, toks).Toks
			}
			s = sqlgen.SQL(toks) + " ; SELECT 1"
		}
		_, err := gosqlx.Parse(s)
		hx.Case("recovery_terminates_iff", err != nil, fmt.Sprint(len(s), err != nil))
		hx.Sample("recovery_terminates_iff", s)
		return SoupCase{SQL: s}
	})
}

// ---------------------------------------------------------------- scripts S1;...;Sn

type Segment struct {
	SQL   string `json:"sql"`
	NToks int    `json:"ntoks"`
	Bad   bool   `json:"corrupted"`
}

type ScriptCase struct {
	Segments []Segment `json:"segments"`
}

func (c ScriptCase) text() string {
	var parts []string
	for _, s := range c.Segments {
		parts = append(parts, s.SQL)
	}
	return strings.Join(parts, " ; ")
}

func oracleScript(c ScriptCase) error {
	// classify each segment by strict parsing alone
	type cls struct {
		ok   bool
		tree string
	}
	var want []cls
	nBad := 0
	for _, s := range c.Segments {
		t, err := gosqlx.Parse(s.SQL)
		if err != nil {
			want = append(want, cls{})
			nBad++
			continue
		}
		want = append(want, cls{true, astdump.Dump(t.Statements)})
	}
	stmts, errs, ok := recoverParse(c.text())
	if !ok {
		return fmt.Errorf("NONTERMINATION: recovery parsing did not return within %s", hangBudget)
	}
	// trees of the well-formed segments, in order
	var wantTrees []string
	for _, w := range want {
		if w.ok {
			wantTrees = append(wantTrees, w.tree)
		}
	}
	if len(stmts) != len(wantTrees) {
		return fmt.Errorf("%d of %d segments are well-formed but recovery parsing returned %d trees (and %d errors)", len(wantTrees), len(c.Segments), len(stmts), len(errs))
	}
	for i, st := range stmts {
		if d := astdump.Dump([]ast.Statement{st}); d != wantTrees[i] {
			return fmt.Errorf("tree %d differs from strict parsing of its segment: %s", i, astdump.Diff(d, wantTrees[i]))
		}
	}
	if len(errs) != nBad {
		return fmt.Errorf("%d segments are malformed but recovery parsing reports %d errors", nBad, len(errs))
	}
	// each error names a token inside its own segment, and where it carries a source location
	// that location lies inside the segment's text (up to and including its terminator)
	text := c.text()
	start := 0
	ei := 0
	off := 0
	for i, s := range c.Segments {
		end := start + s.NToks         // token indices [start,end) belong to the segment; end is its semicolon
		segEnd := off + len(s.SQL) + 2 // " ;"
		if i == len(c.Segments)-1 {
			segEnd = len(text)
		}
		if !want[i].ok {
			var pe *parser.ParseError
			if errors.As(errs[ei], &pe) {
				if pe.TokenIdx < start || pe.TokenIdx >= end {
					return fmt.Errorf("error %d belongs to segment %d (tokens %d..%d) but names token %d", ei, i, start, end-1, pe.TokenIdx)
				}
			}
			var se *goerrors.Error
			if errors.As(errs[ei], &se) && se.Location.Line > 0 {
				if at, ok := offsetOf(text, se.Location.Line, se.Location.Column); ok {
					hx.Class("recovery_script", "error_locations_checked")
					if at < off || at > segEnd {
						return fmt.Errorf("error %d belongs to segment %d (bytes %d..%d of the script) but is located at %d:%d = byte %d (%q)", ei, i, off, segEnd, se.Location.Line, se.Location.Column, at, clipAt(text, at))
					}
				}
			}
			ei++
		}
		start = end + 1
		off += len(s.SQL) + 3 // " ; "
	}
	return nil
}

// offsetOf converts a 1-based (line, column) into a byte offset of text; ok is false when the
// line prefix contains a tab or a non-ASCII byte (the library's column arithmetic differs there).
func offsetOf(text string, line, col int) (int, bool) {
	l, lineStart := 1, 0
	for i := 0; i < len(text) && l < line; i++ {
		if text[i] == '\n' {
			l++
			lineStart = i + 1
		}
	}
	if l != line || col < 1 {
		return 0, false
	}
	at := lineStart + col - 1
	if at > len(text) {
		return 0, false
	}
	for i := lineStart; i < at && i < len(text); i++ {
		if text[i] == '\t' || text[i] >= 0x80 || text[i] == '\n' {
			return 0, false
		}
	}
	return at, true
}

func clipAt(text string, at int) string {
	a, b := at-15, at+15
	if a < 0 {
		a = 0
	}
	if b > len(text) {
		b = len(text)
	}
	return text[a:b]
}

var scriptCheck = hx.NewCheck("recovery_script", oracleScript)

var stmtStart = map[string]bool{"SELECT": true, "INSERT": true, "UPDATE": true, "DELETE": true, "CREATE": true, "ALTER": true, "DROP": true, "WITH": true,
	"MERGE": true, "REFRESH": true, "TRUNCATE": true, "GRANT": true, "REVOKE": true, "SET": true, "BEGIN": true, "COMMIT": true, "ROLLBACK": true}

func flatOK(toks []sqlgen.Tok) bool {
	for i, t := range toks {
		if i > 0 && stmtStart[strings.ToUpper(t.Text)] {
			return false
		}
		if t.Text == ";" {
			return false
		}
	}
	return len(toks) > 0
}

// prefixComplete: some proper prefix of the tokens is a complete statement.
func prefixComplete(toks []sqlgen.Tok) bool {
	for k := 1; k < len(toks); k++ {
		if _, err := gosqlx.Parse(sqlgen.SQL(toks[:k])); err == nil {
			return true
		}
	}
	return false
}

func TestRecoveryScript(t *testing.T) {
	hx.Rule("recovery_script", "scripts S1;...;Sn (n<=6) of flat G-SQL statements (no statement-starting keyword after the first token), each kept or corrupted (delete/duplicate/swap/replace/insert/truncate); each Si is classified by gosqlx.Parse alone; recovery parsing must return exactly the trees of the well-formed ones in order, one error per malformed one, each naming a token of its own segment and, where it carries a line/column, located inside its own segment's text; non-trivial = a malformed segment that is neither first nor last, or two adjacent malformed segments; distinct = verdict vector + corruption kinds + sizes")
	scriptCheck.Rapid(t, hx.N(100000, 1000000), genRecoveryScript)
}

// genRecoveryScript is the case generator of scriptCheck (shared by the rapid run and the native fuzz target).
// greedySegments: statements (well-formed and truncated ones) whose parse functions read "whatever comes
// next": a unit after INTERVAL <number>, mode words up to a closing parenthesis, the words after SHOW. In a
// script they must not reach into the next statement. Tokens are separated by single blanks.
var greedySegments = []string{
	"SELECT NOW ( ) - INTERVAL 7",
	"SELECT a FROM t1 WHERE b > INTERVAL 7",
	"SELECT a FROM t1 WHERE b > INTERVAL 7 DAY",
	"SELECT DATE_ADD ( NOW ( ) , INTERVAL 30",
	"SELECT a FROM t1 WHERE MATCH ( a ) AGAINST ( 'q' IN BOOLEAN MODE )",
	"SELECT a FROM t1 WHERE MATCH ( a ) AGAINST ( 'q' IN BOOLEAN MODE",
	"SHOW TABLES",
	"SHOW TABLES FROM",
	"SHOW CREATE",
	"SHOW CREATE TABLE t1",
	"SHOW",
	"DESCRIBE t1",
	"DESCRIBE",
	"REPLACE INTO t1 VALUES ( 1 )",
	"REPLACE INTO t1 VALUES ( 1",
	"CREATE INDEX ix ON t1 ( a NULLS",
	"CREATE INDEX ix ON t1 ( a NULLS FIRST",
	"CREATE INDEX ix ON t1 ( a DESC NULLS",
	"CREATE TABLE n1 ( a VARCHAR ( 10",
	"CREATE TABLE n1 ( a DECIMAL ( 10 ,",
	"CREATE TABLE n1 ( a DECIMAL ( 10 , 2",
	"ALTER TABLE t1 ADD COLUMN c VARCHAR ( 10",
	"CREATE TABLE n1 ( a INT ) PARTITION BY RANGE ( a ) ( PARTITION p0 VALUES LESS THAN",
	"CREATE TABLE n1 ( a INT REFERENCES t1 ( b ) ON DELETE",
	"CREATE TABLE n1 ( a INT ) ENGINE =",
	"TRUNCATE TABLE t1 ,",
	"DROP TABLE IF EXISTS t1 ,",
	"SELECT a FROM t1 FOR UPDATE OF",
	"SELECT a FROM t1 FETCH FIRST 3 ROWS",
	"SELECT SUM ( a ) OVER ( ORDER BY b ROWS BETWEEN 1 PRECEDING AND",
	"INSERT INTO t1 VALUES ( 1 ) ON CONFLICT ( a ) DO",
	"MERGE INTO t1 USING t2 ON t1 . a = t2 . a WHEN MATCHED THEN",
	"CREATE MATERIALIZED VIEW mv TABLESPACE",
	"REFRESH MATERIALIZED VIEW",
}

func genRecoveryScript(rt *rapid.T) ScriptCase {
	n := rapid.IntRange(1, 6).Draw(rt, "nseg")
	var c ScriptCase
	var vec []string
	for i := 0; i < n; i++ {
		if rapid.IntRange(0, 5).Draw(rt, "greedyseg") == 5 {
			sql := rapid.SampledFrom(greedySegments).Draw(rt, "greedy")
			_, err := gosqlx.Parse(sql)
			c.Segments = append(c.Segments, Segment{SQL: sql, NToks: len(strings.Fields(sql)), Bad: err != nil})
			vec = append(vec, "greedy")
			continue
		}
		f := sqlgen.FullFeatures()
		f.Flat = true
		f.MaxDepth = 2
		f.NoGroupingOps = true // "GROUPING SETS" stays one parser token: token indices would not line up with generated ones
		g := sqlgen.New(rt, f)
		toks := sqlgen.Statement(g).Toks
		if !flatOK(toks) {
			toks = []sqlgen.Tok{{Text: "SELECT", KW: true}, {Text: "a"}, {Text: "FROM", KW: true}, {Text: "t1"}}
		}
		bad := false
		kind := "ok"
		if rapid.IntRange(0, 9).Draw(rt, "corruptseg") >= 6 && len(toks) >= 2 {
			r := corrupt.Apply(rt, toks)
			if flatOK(r.Toks) {
				if !hx.Allowed("c12.prefix_is_complete_statement") && prefixComplete(r.Toks) {
					// listed finding: steer around corruptions that leave a complete statement as a proper prefix
				} else {
					toks, bad, kind = r.Toks, true, r.Kind
				}
			}
		}
		c.Segments = append(c.Segments, Segment{SQL: sqlgen.SQL(toks), NToks: len(toks), Bad: bad})
		vec = append(vec, kind)
	}
	nt := false
	for i := range c.Segments {
		if c.Segments[i].Bad && ((i > 0 && i < n-1) || (i > 0 && c.Segments[i-1].Bad)) {
			nt = true
		}
	}
	hx.Case("recovery_script", nt, strings.Join(vec, ",")+fmt.Sprint(len(c.text())/16))
	hx.Sample("recovery_script", c.text())
	return c
}

// FuzzRecoveryScript: coverage-guided search over the same generator (thorough tier).
func FuzzRecoveryScript(f *testing.F) { scriptCheck.Fuzz(f, genRecoveryScript) }
