package c05

import (
	"errors"
	"fmt"
	"strings"
	"testing"

	goerrors "github.com/ajitpratap0/GoSQLX/pkg/errors"
	"github.com/ajitpratap0/GoSQLX/pkg/models"
	"github.com/ajitpratap0/GoSQLX/pkg/sql/parser"
	"github.com/ajitpratap0/GoSQLX/pkg/sql/tokenizer"
	"pgregory.net/rapid"
	"verif/gen/corrupt"
	"verif/gen/lexgen"
	"verif/gen/sqlgen"
	"verif/internal/hx"
	"verif/internal/obs"
)

func TestMain(m *testing.M) { hx.Main(m, "C05") }

type PosCase struct {
	Text lexgen.Text `json:"text"`
}

func features() lexgen.Features {
	return lexgen.Features{
		StringStartsWithDoubledQuote: false, // rejected on this tree (C04 finding); positions need accepted text
		TrailingComment:              true,
		Comments:                     true,
	}
}

type loc struct{ l, c int }

func le(a, b loc) bool { return a.l < b.l || (a.l == b.l && a.c <= b.c) }

// lineWidthBound: the largest column any counting convention (bytes, runes,
// tab = 4) can assign on a line, +1 for the position just past its end.
func bounds(src string) (nLines int, width []int) {
	lines := strings.Split(src, "\n")
	for _, l := range lines {
		width = append(width, 4*len(l)+1)
	}
	return len(lines), width
}

func oraclePos(c PosCase) error {
	src := c.Text.Src
	tkz, err := tokenizer.New()
	if err != nil {
		return err
	}
	raw, err := tkz.Tokenize([]byte(src))
	if err != nil {
		return nil // acceptance is C04's business
	}
	got := obs.Observe(raw)
	n := len(c.Text.Tokens)
	if len(got) < n+1 {
		return nil // token count is C04's business
	}
	nLines, width := bounds(src)
	inside := func(what string, p loc) error {
		if p.l < 1 || p.c < 1 {
			return fmt.Errorf("%s %d:%d is not 1-based", what, p.l, p.c)
		}
		if p.l > nLines || p.c > width[p.l-1] {
			return fmt.Errorf("%s %d:%d lies outside the input (%d lines)", what, p.l, p.c, nLines)
		}
		return nil
	}
	prevEnd := loc{1, 1}
	for i := 0; i < n; i++ {
		e, g := c.Text.Tokens[i], got[i]
		first := g.Part <= 1
		last := g.Part == 0 || i+1 >= len(got) || got[i+1].Part != g.Part+1
		s, en := loc{g.Line, g.Col}, loc{g.EndLine, g.EndCol}
		if err := inside(fmt.Sprintf("start of token %d (%q)", i, e.Text), s); err != nil {
			return err
		}
		if err := inside(fmt.Sprintf("end of token %d (%q)", i, e.Text), en); err != nil {
			return err
		}
		if first {
			if g.Line != e.Line {
				return fmt.Errorf("token %d (%q) starts on line %d, reported %d:%d", i, e.Text, e.Line, g.Line, g.Col)
			}
			if e.LineASCII && g.Col != e.Col {
				return fmt.Errorf("token %d (%q) starts at %d:%d, reported %d:%d", i, e.Text, e.Line, e.Col, g.Line, g.Col)
			}
			if !le(prevEnd, s) {
				return fmt.Errorf("token %d (%q) starts at %d:%d, before the end %d:%d of the previous element", i, e.Text, s.l, s.c, prevEnd.l, prevEnd.c)
			}
		}
		if last {
			if g.EndLine != e.EndLine {
				return fmt.Errorf("token %d (%q) ends on line %d, reported %d:%d", i, e.Text, e.EndLine, g.EndLine, g.EndCol)
			}
			if e.EndASCII && g.EndCol != e.EndCol {
				return fmt.Errorf("token %d (%q) ends at %d:%d, reported %d:%d", i, e.Text, e.EndLine, e.EndCol, g.EndLine, g.EndCol)
			}
			if !le(s, en) {
				return fmt.Errorf("token %d (%q): end %d:%d before start %d:%d", i, e.Text, en.l, en.c, s.l, s.c)
			}
			prevEnd = en
		}
	}
	// end-of-input marker sits at the end of the text
	eof := got[n]
	if eof.Kind == "eof" {
		el, ec, ea := lexgen.Locate2(src, len(src))
		if eof.Line != el || (ea && eof.Col != ec) {
			return fmt.Errorf("end-of-input marker at %d:%d, text ends at %d:%d", eof.Line, eof.Col, el, ec)
		}
		if !le(prevEnd, loc{eof.Line, eof.Col}) {
			return fmt.Errorf("end-of-input marker %d:%d before end of last token %d:%d", eof.Line, eof.Col, prevEnd.l, prevEnd.c)
		}
	}
	// comments
	if len(tkz.Comments) == len(c.Text.Comments) {
		var prev loc
		for i, e := range c.Text.Comments {
			g := tkz.Comments[i]
			s, en := loc{g.Start.Line, g.Start.Column}, loc{g.End.Line, g.End.Column}
			if err := inside(fmt.Sprintf("start of comment %d", i), s); err != nil {
				return err
			}
			if g.Start.Line != e.Line || (e.LineASCII && g.Start.Column != e.Col) {
				return fmt.Errorf("comment %d (%q) starts at %d:%d, reported %d:%d", i, e.Text, e.Line, e.Col, s.l, s.c)
			}
			okEnd := g.End.Line == e.EndLine && (!e.EndASCII || g.End.Column == e.EndCol)
			if !okEnd && strings.HasPrefix(e.Text, "--") && e.End < len(src) && src[e.End] == '\n' {
				okEnd = g.End.Line == e.EndLine+1 && g.End.Column == 1 // "ends" read as: consumed through its newline
			}
			if !okEnd {
				return fmt.Errorf("comment %d (%q) ends at %d:%d, reported %d:%d", i, e.Text, e.EndLine, e.EndCol, en.l, en.c)
			}
			if i > 0 && !le(prev, s) {
				return fmt.Errorf("comment %d starts at %d:%d before the end of the previous comment %d:%d", i, s.l, s.c, prev.l, prev.c)
			}
			prev = en
		}
	}
	return nil
}

var posCheck = hx.NewCheck("token_positions", oraclePos)

func TestTokenPositions(t *testing.T) {
	hx.Rule("token_positions", "G-LEX texts with arbitrary line structure; every token/comment start and end vs generated line:column (exact on ASCII tab-free line prefixes, line number otherwise), 1-based, ordered, inside input; non-trivial = multi-line text with a comment or multi-line literal before a checked token; distinct = (kinds, separator classes)")
	posCheck.Rapid(t, hx.N(120000, 1200000), genPositions)
}

// ---------------------------------------------------------------- tokenizer error locations

type ErrCase struct {
	Src    string `json:"src"`
	Family string `json:"family"`
	Off    int    `json:"off"`   // first byte of the offending element
	End    int    `json:"end"`   // one past its last byte
	Exact  bool   `json:"exact"` // location must be exactly the first character
}

var badLexemes = []struct {
	family, text string
	exact        bool
}{
	{"unterminated_string", "'abc", true},
	{"unterminated_string", "'it''s", true},
	{"unterminated_string_multiline", "'abc\ndef", true},
	{"unterminated_qident", "\"abc", true},
	{"qident_newline", "\"ab\ncd\"", true},
	{"unterminated_bident", "`abc", true},
	{"bad_escape", `'ab\qcd'`, false},
	{"bad_escape", `'\x'`, false},
	{"illegal_char", "\x01", true},
	{"illegal_char", "^", true},
	{"illegal_char", "\\", true},
	{"illegal_char", "{", true},
	{"bad_number", "1.", false},
	{"bad_number", "12e", false},
	{"bad_number", "3.5e+", false},
	{"unterminated_dollar", "$$abc", true},
	{"unterminated_dollar", "$t$abc$", true},
	{"unterminated_dollar", "$body$ abc\n\n  def\n", true},
	{"unterminated_dollar", "$$\n\n", true},
}

func oracleErr(c ErrCase) error {
	tkz, _ := tokenizer.New()
	_, err := tkz.Tokenize([]byte(c.Src))
	if err == nil {
		return nil // some families are legal on some trees; acceptance is not this check's business
	}
	var se *goerrors.Error
	if !errors.As(err, &se) {
		return nil // C13's business
	}
	l := se.Location
	if l.Line == 0 && l.Column == 0 {
		return nil // unset
	}
	sl, sc, sa := lexgen.Locate2(c.Src, c.Off)
	el, ec, ea := lexgen.Locate2(c.Src, c.End)
	nLines, width := bounds(c.Src)
	if l.Line < 1 || l.Column < 1 || l.Line > nLines || l.Column > width[l.Line-1] {
		return fmt.Errorf("%s: error location %d:%d is not a 1-based position inside the input", c.Family, l.Line, l.Column)
	}
	if c.Exact {
		if l.Line != sl || (sa && l.Column != sc) {
			return fmt.Errorf("%s: offending element starts at %d:%d, error located at %d:%d", c.Family, sl, sc, l.Line, l.Column)
		}
		return nil
	}
	if !le(loc{sl, 1}, loc{l.Line, l.Column}) || !le(loc{l.Line, 1}, loc{el, 1 << 30}) {
		return fmt.Errorf("%s: offending element spans lines %d-%d, error located at %d:%d", c.Family, sl, el, l.Line, l.Column)
	}
	if sa && l.Line == sl && l.Column < sc {
		return fmt.Errorf("%s: offending element starts at %d:%d, error located before it at %d:%d", c.Family, sl, sc, l.Line, l.Column)
	}
	if ea && l.Line == el && l.Column > ec {
		return fmt.Errorf("%s: offending element ends at %d:%d, error located after it at %d:%d", c.Family, el, ec, l.Line, l.Column)
	}
	return nil
}

var errCheck = hx.NewCheck("tokenizer_error_location", oracleErr)

func TestTokenizerErrorLocation(t *testing.T) {
	hx.Rule("tokenizer_error_location", "valid G-LEX prefix + one lexical error of a known family at a known offset; the structured error's location must be the first character of the offending element (inside its span for escape/number/dollar families); non-trivial = the error is not on line 1 or follows a comment; distinct = (family, prefix kinds, separators)")
	errCheck.Rapid(t, hx.N(80000, 800000), func(rt *rapid.T) ErrCase {
		f := features()
		var lx []lexgen.Lexeme
		if rapid.IntRange(0, 9).Draw(rt, "hasprefix") > 0 {
			lx = lexgen.GenLexemes(rt, f, 12)
		}
		b := rapid.SampledFrom(badLexemes).Draw(rt, "bad")
		var tx lexgen.Text
		if len(lx) > 0 {
			seps := lexgen.GenSeps(rt, f, lx, "s")
			last := seps[len(lx)]
			if last.Class == lexgen.SepNone {
				seps[len(lx)] = lexgen.Sep{Class: lexgen.SepWS, Text: " "}
			}
			tx = lexgen.Render(lx, seps)
		}
		src := tx.Src + b.text
		tail := rapid.SampledFrom([]string{"", "", " x", "\nselect 1"}).Draw(rt, "tail")
		if strings.HasPrefix(b.family, "unterminated") || b.family == "qident_newline" {
			tail = ""
		}
		c := ErrCase{Src: src + tail, Family: b.family, Off: len(tx.Src), End: len(src), Exact: b.exact}
		nt := strings.Contains(tx.Src, "\n") || len(tx.Comments) > 0
		var kinds []string
		for _, l := range lx {
			kinds = append(kinds, l.Kind)
		}
		hx.Case("tokenizer_error_location", nt, b.family+b.text+strings.Join(kinds, ",")+strings.Join(tx.SepClass, ","), "family_"+b.family)
		hx.Sample("tokenizer_error_location", c.Src)
		return c
	})
}

var _ = models.Location{}

// ---------------------------------------------------------------- parser error locations

type PErrCase struct {
	Src    string          `json:"src"`
	Tokens []lexgen.ExpTok `json:"tokens"` // generated tokens with positions (the corrupted statement)
	First  int             `json:"first"`  // index of the first corrupted token
	Exact  bool            `json:"exact"`  // the parser must reject exactly at token First
	// NoLookahead: token First is the second word of a compound keyword (GROUP BY): the word before it is
	// part of what the parser accepted, so the location must be exactly First's
	NoLookahead bool   `json:"no_lookahead,omitempty"`
	Kind        string `json:"kind"`
}

func oraclePErr(c PErrCase) error {
	tkz, _ := tokenizer.New()
	toks, err := tkz.Tokenize([]byte(c.Src))
	if err != nil {
		return nil
	}
	p := parser.NewParser()
	_, err = p.ParseFromModelTokensWithPositions(toks)
	if err == nil {
		if c.Exact {
			return fmt.Errorf("%s: a token no statement can contain at that point was accepted", c.Kind)
		}
		return nil
	}
	var se *goerrors.Error
	if !errors.As(err, &se) {
		return nil // C13's business
	}
	l := se.Location
	if l.Line < 1 || l.Column < 1 {
		hx.Class("parser_error_location", "location_unset")
		// the parse was given the position of every token: an error that names no position identifies nothing
		return fmt.Errorf("%s: position-tracking parse reports %s without a location (%d:%d): %s", c.Kind, se.Code, l.Line, l.Column, firstLineOf(err))
	}
	hx.Class("parser_error_location", "location_set")
	// candidate positions: start of every generated token and the end of input.
	// A candidate matches when the reported column equals its rune column or the
	// column under the library's own convention (bytes, tab = 4): identification
	// only - which token is meant - not an assertion about tab/non-ASCII columns.
	libCol := func(off int) int {
		ls := strings.LastIndexByte(c.Src[:off], '\n') + 1
		col := 1
		for i := ls; i < off; i++ {
			if c.Src[i] == '\t' {
				col += 4
			} else {
				col++
			}
		}
		return col
	}
	type cand struct {
		idx       int
		line, col int
		lib       int
	}
	var cs []cand
	for i, t := range c.Tokens {
		cs = append(cs, cand{i, t.Line, t.Col, libCol(t.Off)})
	}
	el, ec, _ := lexgen.Locate2(c.Src, len(c.Src))
	cs = append(cs, cand{len(c.Tokens), el, ec, libCol(len(c.Src))})
	hit := -1
	for _, k := range cs {
		if k.line == l.Line && (k.col == l.Column || k.lib == l.Column) {
			hit = k.idx
			break
		}
	}
	if hit < 0 {
		return fmt.Errorf("%s: error located at %d:%d, which is not the start of any token (nor the end of input)", c.Kind, l.Line, l.Column)
	}
	// a parser that looks one token ahead may name the token before the one that
	// cannot continue the statement ("ON" in "ON DO NOTHING"): both are accepted
	lower := c.First - 1
	if hit < lower {
		// every proper prefix before the first corrupted token is the prefix of a valid statement
		ft := c.Tokens[minInt(c.First, len(c.Tokens)-1)]
		return fmt.Errorf("%s: error located at %d:%d (token %d) but the text is a viable prefix up to token %d at %d:%d", c.Kind, l.Line, l.Column, hit, c.First, ft.Line, ft.Col)
	}
	if c.NoLookahead && hit != c.First {
		ft := c.Tokens[c.First]
		return fmt.Errorf("%s: the offending word %q of the compound keyword is token %d at %d:%d, error located at %d:%d (token %d)", c.Kind, ft.Text, c.First, ft.Line, ft.Col, l.Line, l.Column, hit)
	}
	if c.Exact && hit != c.First && hit != lower {
		ft := c.Tokens[c.First]
		return fmt.Errorf("%s: offending token %q is token %d at %d:%d, error located at %d:%d (token %d)", c.Kind, ft.Text, c.First, ft.Line, ft.Col, l.Line, l.Column, hit)
	}
	// the recovery entry point runs the same statement parser: its first error is this error
	// and must be located at the same place
	p2 := parser.NewParser()
	_, rerrs := p2.ParseWithRecoveryFromModelTokens(toks)
	if len(rerrs) > 0 {
		var re *goerrors.Error
		if errors.As(rerrs[0], &re) && re.Location.Line >= 1 && re.Location.Column >= 1 {
			hx.Class("parser_error_location", "recovery_location_compared")
			if re.Location != l {
				return fmt.Errorf("%s: strict parsing locates the error at %d:%d, recovery parsing locates the same (first) error at %d:%d", c.Kind, l.Line, l.Column, re.Location.Line, re.Location.Column)
			}
		}
		// the recovery error's own Line/Column fields describe the same error
		var pe *parser.ParseError
		if errors.As(rerrs[0], &pe) && pe.Line >= 1 {
			hx.Class("parser_error_location", "parse_error_fields_compared")
			if pe.Line != l.Line || pe.Column != l.Column {
				return fmt.Errorf("%s: the recovery error says line %d, column %d in its own fields, but the error it wraps (and strict parsing) is located at %d:%d", c.Kind, pe.Line, pe.Column, l.Line, l.Column)
			}
		}
	}
	return nil
}

func minInt(a, b int) int {
	if a < b {
		return a
	}
	return b
}

var perrCheck = hx.NewCheck("parser_error_location", oraclePErr)

func TestParserErrorLocation(t *testing.T) {
	hx.Rule("parser_error_location", "G-SQL statement with one token-level corruption (delete/duplicate/swap/replace/insert/truncate, or a stray ']' that no viable prefix admits, or WITHIN GROUP BY whose offender is the second word of a compound keyword), laid out over several lines with comments, parsed with position tracking; a set error location must be the start of a token at or after the first corrupted token, and exactly the stray token for that family; the first error of recovery parsing of the same tokens must be located at the same place; non-trivial = corruption not on line 1; distinct = (kind, position, layout)")
	perrCheck.Rapid(t, hx.N(120000, 1200000), genParserErrorPositions)
}

// genPositions is the case generator of posCheck (shared by the rapid run and the native fuzz target).
func genPositions(rt *rapid.T) PosCase {
	f := features()
	lx := lexgen.GenLexemes(rt, f, 25)
	tx := lexgen.Render(lx, lexgen.GenSeps(rt, f, lx, "s"))
	multiline := strings.Contains(tx.Src, "\n")
	before := false
	for i, tk := range tx.Tokens {
		if i+1 < len(tx.Tokens) && strings.Contains(tk.Text, "\n") {
			before = true
		}
	}
	if len(tx.Comments) > 0 && len(tx.Tokens) > 0 && tx.Comments[0].Off < tx.Tokens[len(tx.Tokens)-1].Off {
		before = true
	}
	var kinds []string
	for _, l := range lx {
		kinds = append(kinds, l.Kind)
	}
	var cl []string
	if multiline {
		cl = append(cl, "multiline")
	}
	if before {
		cl = append(cl, "comment_or_multiline_literal_before_token")
	}
	hx.Case("token_positions", multiline && before, strings.Join(kinds, ",")+"|"+strings.Join(tx.SepClass, ","), cl...)
	hx.Sample("token_positions", tx.Src)
	return PosCase{tx}
}

// FuzzPositions: coverage-guided search over the same generator (thorough tier).
func FuzzPositions(f *testing.F) { posCheck.Fuzz(f, genPositions) }

// genParserErrorPositions is the case generator of perrCheck (shared by the rapid run and the native fuzz target).
func genParserErrorPositions(rt *rapid.T) PErrCase {
	// MERGE, DDL, ALTER and partitioning too; not the MySQL forms: SHOW <anything> and the mode words of
	// MATCH .. AGAINST (..) accept arbitrary tokens, so a stray token there is not the offending one
	sf := sqlgen.FullFeatures()
	sf.MySQL = false
	g := sqlgen.New(rt, sf)
	st := sqlgen.Statement(g)
	var r corrupt.Result
	exact := false
	if rapid.IntRange(0, 15).Draw(rt, "compound_family") == 0 {
		// WITHIN GROUP must be followed by "(": in WITHIN GROUP BY the tokenizer's compound keyword GROUP BY
		// is split into two parser tokens and the second one is the offender, wherever the layout puts it
		var toks []sqlgen.Tok
		for _, w := range strings.Fields("SELECT string_agg ( a , 'x' ) WITHIN GROUP BY ( ORDER BY a ) FROM t1") {
			toks = append(toks, sqlgen.Tok{Text: w})
		}
		lx := sqlgen.Lexemes(toks)
		f := lexgen.Features{StringStartsWithDoubledQuote: true, TrailingComment: true}
		tx := lexgen.Render(lx, lexgen.GenSeps(rt, f, lx, "l"))
		hx.Case("parser_error_location", tx.Tokens[9].Line > tx.Tokens[8].Line, "compound_second_word|"+strings.Join(tx.SepClass, ","), "kind_compound_second_word")
		hx.Sample("parser_error_location", tx.Src)
		return PErrCase{Src: tx.Src, Tokens: tx.Tokens, First: 9, Exact: true, NoLookahead: true, Kind: "compound_second_word"}
	}
	if rapid.IntRange(0, 2).Draw(rt, "family") > 0 {
		if s, ok := corrupt.InsertStray(rt, st.Toks); ok {
			r, exact = s, true
		}
	}
	if !exact {
		if len(st.Toks) < 2 {
			st.Toks = append(st.Toks, sqlgen.Tok{Text: ";"})
		}
		r = corrupt.Apply(rt, st.Toks)
	}
	if len(r.Toks) == 0 {
		r.Toks = []sqlgen.Tok{{Text: ")"}}
		r.First = 0
	}
	lx := sqlgen.Lexemes(r.Toks)
	f := lexgen.Features{StringStartsWithDoubledQuote: true, TrailingComment: true, Comments: true}
	tx := lexgen.Render(lx, lexgen.GenSeps(rt, f, lx, "l"))
	first := r.First
	nt := first < len(tx.Tokens) && tx.Tokens[first].Line > 1
	hx.Case("parser_error_location", nt, fmt.Sprintf("%s|%d|%s", r.Kind, first, strings.Join(tx.SepClass, ",")), "kind_"+r.Kind)
	hx.Sample("parser_error_location", tx.Src)
	return PErrCase{Src: tx.Src, Tokens: tx.Tokens, First: first, Exact: exact, Kind: r.Kind}
}

// FuzzParserErrorPositions: coverage-guided search over the same generator (thorough tier).
func FuzzParserErrorPositions(f *testing.F) { perrCheck.Fuzz(f, genParserErrorPositions) }

func firstLineOf(err error) string {
	m := err.Error()
	if i := strings.IndexByte(m, '\n'); i >= 0 {
		m = m[:i]
	}
	if len(m) > 200 {
		m = m[:200]
	}
	return m
}
