package c01

import (
	"bufio"
	"fmt"
	"os"
	"strconv"
	"strings"
	"testing"
	"time"

	"github.com/ajitpratap0/GoSQLX/pkg/models"
	"verif/gen/bytegen"
	"verif/internal/hx"
)

// Native, coverage-guided fuzz targets (thorough tier only; the driver runs them with
// -test.fuzz and turns a crasher into a replay file of the matching rapid check). Under a plain
// test run they do nothing, so the quick tier stays a pure function of VERIF_SEED.

const fuzzHangBudget = 8 * time.Second // the fuzz engine itself gives up on an input after 10 s

func nativeFuzz() bool { return os.Getenv("VERIF_NATIVE_FUZZ") != "" }

func FuzzBytesAllEntryPoints(f *testing.F) {
	if !nativeFuzz() {
		f.Skip("native fuzzing runs in the thorough tier only")
	}
	for i, s := range bytegen.Corpus() {
		if i%7 == 0 && len(s) < 600 {
			f.Add([]byte(s), uint8(i), i%5 == 0)
		}
	}
	for i := 0; i+6 <= len(bytegen.Hostile); i += 3 {
		f.Add([]byte(strings.Join(bytegen.Hostile[i:i+6], " ")), uint8(i), false)
	}
	for _, s := range []string{"SELECT MATCH (a) AGAINST ('x' IN", "SELECT INTERVAL 3", "SELECT CAST(a AS", "SELECT a FROM t WHERE b IN (SELECT", "WITH RECURSIVE c AS (",
		"SELECT NOT NOT NOT EXISTS (SELECT 1)", "INSERT INTO t VALUES (1) ON CONFLICT (a) DO UPDATE SET", "MERGE INTO t USING s ON a = b WHEN", "SELECT $q$", "SELECT E'\\", "SELECT 1e", "SELECT 'a' /*"} {
		f.Add([]byte(s), uint8(0), false)
		f.Add([]byte(s), uint8(2), true)
	}
	f.Fuzz(func(t *testing.T, data []byte, d uint8, strict bool) {
		if len(data) > 1<<14 {
			return
		}
		var st stats
		dialect := dialects[int(d)%len(dialects)]
		err, hung, at := run(fuzzHangBudget, func(cur *string) { textEntryPoints(cur, data, dialect, strict, &st) })
		if hung {
			t.Fatalf("%s does not return within %v on %q", at, fuzzHangBudget, preview(data))
		}
		if err != nil {
			t.Fatalf("on %q (dialect %q, strict %v): %v", preview(data), dialect, strict, err)
		}
	})
}

func tokensFromBytes(data []byte) []TokJ {
	var toks []TokJ
	for i := 0; i+1 < len(data) && len(toks) < 200; i += 2 {
		ty := allTypes[int(data[i])%len(allTypes)]
		if data[i] >= 200 { // a quarter of the range: Type-less / EOF tokens
			ty = []int{0, int(models.TokenTypeEOF)}[int(data[i])%2]
		}
		toks = append(toks, TokJ{Type: ty, Lit: bytegen.Hostile[int(data[i+1])%len(bytegen.Hostile)]})
	}
	return toks
}

func FuzzTokensParser(f *testing.F) {
	if !nativeFuzz() {
		f.Skip("native fuzzing runs in the thorough tier only")
	}
	f.Add([]byte{1, 2, 3, 4, 5, 6}, uint8(0), false, true)
	f.Add([]byte{201, 0}, uint8(1), true, false)
	f.Add([]byte{}, uint8(0), false, false)
	for i := 0; i < 64; i++ {
		b := make([]byte, 24)
		for j := range b {
			b[j] = byte(i*31 + j*17)
		}
		f.Add(b, uint8(i), i%3 == 0, i%2 == 0)
	}
	f.Fuzz(func(t *testing.T, data []byte, d uint8, strict bool, model bool) {
		c := TokCase{Toks: tokensFromBytes(data), PosLen: -1, Model: model, Dialect: string(dialects[int(d)%len(dialects)]), Strict: strict}
		if len(data)%3 == 0 {
			c.PosLen = len(c.Toks) / 2
		}
		if err := fuzzTok(c); err != nil {
			t.Fatal(err)
		}
	})
}

// fuzzTok is oracleTok with the short hang budget and without process exit.
func fuzzTok(c TokCase) error {
	os.Setenv("VERIF_LEAF", "1") // in a fuzz worker the oracle must evaluate in-process and return errors
	defer os.Unsetenv("VERIF_LEAF")
	return oracleTok(c)
}

// ---------------------------------------------------------------- crasher -> replay case

// parseCrasher reads a Go fuzz corpus file ("go test fuzz v1" followed by one value per line).
func parseCrasher(path string) ([]string, error) {
	f, err := os.Open(path)
	if err != nil {
		return nil, err
	}
	defer f.Close()
	sc := bufio.NewScanner(f)
	sc.Buffer(make([]byte, 1<<22), 1<<22)
	var vals []string
	first := true
	for sc.Scan() {
		if first {
			first = false
			if !strings.HasPrefix(sc.Text(), "go test fuzz") {
				return nil, fmt.Errorf("%s is not a fuzz corpus file", path)
			}
			continue
		}
		vals = append(vals, sc.Text())
	}
	return vals, sc.Err()
}

func unquoteBytes(v string) ([]byte, error) {
	v = strings.TrimSuffix(strings.TrimPrefix(v, "[]byte("), ")")
	s, err := strconv.Unquote(v)
	return []byte(s), err
}

func argOf(v, typ string) string { return strings.TrimSuffix(strings.TrimPrefix(v, typ+"("), ")") }

func init() {
	hx.RegisterMaker("bytes_all_entry_points", func(path string) (interface{}, error) {
		vals, err := parseCrasher(path)
		if err != nil || len(vals) < 3 {
			return nil, fmt.Errorf("bad crasher %s: %v", path, err)
		}
		data, err := unquoteBytes(vals[0])
		if err != nil {
			return nil, err
		}
		d, _ := strconv.Atoi(strings.Trim(argOf(vals[1], "byte"), "'"))
		if n, err := strconv.Unquote(argOf(vals[1], "byte")); err == nil && len(n) == 1 {
			d = int(n[0])
		}
		return BytesCase{Input: data, Preview: preview(data), Dialect: string(dialects[d%len(dialects)]), Strict: argOf(vals[2], "bool") == "true", Child: true}, nil
	})
	hx.RegisterMaker("tokens_all_entry_points", func(path string) (interface{}, error) {
		vals, err := parseCrasher(path)
		if err != nil || len(vals) < 4 {
			return nil, fmt.Errorf("bad crasher %s: %v", path, err)
		}
		data, err := unquoteBytes(vals[0])
		if err != nil {
			return nil, err
		}
		d, _ := strconv.Atoi(strings.Trim(argOf(vals[1], "byte"), "'"))
		if n, err := strconv.Unquote(argOf(vals[1], "byte")); err == nil && len(n) == 1 {
			d = int(n[0])
		}
		c := TokCase{Toks: tokensFromBytes(data), PosLen: -1, Model: argOf(vals[3], "bool") == "true", Dialect: string(dialects[d%len(dialects)]), Strict: argOf(vals[2], "bool") == "true", Child: true}
		if len(data)%3 == 0 {
			c.PosLen = len(c.Toks) / 2
		}
		return c, nil
	})
}
