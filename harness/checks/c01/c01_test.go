package c01

import (
	"context"
	"fmt"
	"os"
	"runtime/debug"
	"strings"
	"testing"
	"time"
	"unicode/utf8"

	cli "github.com/ajitpratap0/GoSQLX/cmd/gosqlx/cmd"
	"github.com/ajitpratap0/GoSQLX/pkg/formatter"
	"github.com/ajitpratap0/GoSQLX/pkg/gosqlx"
	"github.com/ajitpratap0/GoSQLX/pkg/linter"
	lkw "github.com/ajitpratap0/GoSQLX/pkg/linter/rules/keywords"
	"github.com/ajitpratap0/GoSQLX/pkg/linter/rules/style"
	"github.com/ajitpratap0/GoSQLX/pkg/linter/rules/whitespace"
	"github.com/ajitpratap0/GoSQLX/pkg/models"
	textsec "github.com/ajitpratap0/GoSQLX/pkg/security"
	"github.com/ajitpratap0/GoSQLX/pkg/sql/ast"
	"github.com/ajitpratap0/GoSQLX/pkg/sql/keywords"
	"github.com/ajitpratap0/GoSQLX/pkg/sql/parser"
	"github.com/ajitpratap0/GoSQLX/pkg/sql/security"
	"github.com/ajitpratap0/GoSQLX/pkg/sql/token"
	"github.com/ajitpratap0/GoSQLX/pkg/sql/tokenizer"
	"pgregory.net/rapid"
	"verif/gen/bytegen"
	"verif/gen/famgen"
	"verif/gen/sqlgen"
	"verif/internal/costmeas"
	"verif/internal/hx"
)

func TestMain(m *testing.M) {
	if nativeFuzz() {
		os.Exit(m.Run()) // fuzz coordinator and workers: no containment wrapper, no evidence
	}
	hx.MainContained(m, "C01")
}

var dialects = []keywords.SQLDialect{"", keywords.DialectGeneric, keywords.DialectMySQL, keywords.DialectPostgreSQL, keywords.DialectSQLite,
	keywords.DialectSQLServer, keywords.DialectOracle, keywords.DialectSnowflake, keywords.DialectBigQuery, keywords.DialectRedshift, keywords.DialectUnknown, "no-such-dialect"}

// hangBudget is far beyond what any input of the generated sizes needs (milliseconds);
// it is a hang detector, not a performance bound (C20 covers cost).
func hangBudget(n int) time.Duration {
	return 60*time.Second + time.Duration(n/1000)*time.Second
}

// ---------------------------------------------------------------- entry points

type step struct{ name string }

// guard runs f; a panic is reported with the entry point's name.
func guard(cur *string, name string, f func()) {
	*cur = name
	f()
}

func popts(dialect string, strict bool) []parser.ParserOption {
	var o []parser.ParserOption
	if dialect != "" {
		o = append(o, parser.WithDialect(dialect))
	}
	if strict {
		o = append(o, parser.WithStrictMode())
	}
	return o
}

func cliRules() []linter.Rule {
	return []linter.Rule{
		whitespace.NewTrailingWhitespaceRule(), whitespace.NewMixedIndentationRule(), whitespace.NewConsecutiveBlankLinesRule(1),
		whitespace.NewIndentationDepthRule(4, 4), whitespace.NewLongLinesRule(100), whitespace.NewRedundantWhitespaceRule(),
		style.NewColumnAlignmentRule(), style.NewCommaPlacementRule(style.CommaTrailing), style.NewAliasingConsistencyRule(true),
		lkw.NewKeywordCaseRule(lkw.CaseUpper),
	}
}

type countVisitor struct{ n int }

func (v *countVisitor) Visit(n ast.Node) (ast.Visitor, error) { v.n++; return v, nil }

// consumeTree runs every consumer of a tree.
func consumeTree(cur *string, tree *ast.AST, trees *int) {
	if tree == nil {
		return
	}
	*trees++
	guard(cur, "AST.SQL", func() { _ = tree.SQL() })
	guard(cur, "AST.Format(compact)", func() { _ = tree.Format(ast.FormatOptions{}) })
	guard(cur, "AST.Format(readable)", func() {
		_ = tree.Format(ast.FormatOptions{IndentWidth: 2, LineWidth: 40, NewlinePerClause: true, AddSemicolon: true, KeywordCase: ast.KeywordUpper})
	})
	guard(cur, "AST.Format(tabs,lower)", func() {
		_ = tree.Format(ast.FormatOptions{IndentStyle: ast.IndentTabs, IndentWidth: 1, NewlinePerClause: true, KeywordCase: ast.KeywordLower})
	})
	guard(cur, "cli.SQLFormatter.Format", func() {
		_, _ = cli.NewSQLFormatter(cli.FormatterOptions{Indent: "  ", UppercaseKw: true, AlignColumns: true}).Format(tree)
	})
	guard(cur, "cli.SQLFormatter.Format(compact)", func() {
		_, _ = cli.NewSQLFormatter(cli.FormatterOptions{Compact: true}).Format(tree)
	})
	guard(cur, "ast.Inspect", func() { ast.Inspect(tree, func(ast.Node) bool { return true }) })
	guard(cur, "ast.Walk", func() { _ = ast.Walk(&countVisitor{}, tree) })
	guard(cur, "gosqlx.ExtractTables", func() { _ = gosqlx.ExtractTables(tree) })
	guard(cur, "gosqlx.ExtractTablesQualified", func() { _ = gosqlx.ExtractTablesQualified(tree) })
	guard(cur, "gosqlx.ExtractColumns", func() { _ = gosqlx.ExtractColumns(tree) })
	guard(cur, "gosqlx.ExtractColumnsQualified", func() { _ = gosqlx.ExtractColumnsQualified(tree) })
	guard(cur, "gosqlx.ExtractFunctions", func() { _ = gosqlx.ExtractFunctions(tree) })
	guard(cur, "gosqlx.ExtractMetadata", func() {
		if m := gosqlx.ExtractMetadata(tree); m != nil {
			_ = m.String()
		}
	})
	guard(cur, "security.Scanner.Scan", func() { _ = security.NewScanner().Scan(tree) })
	guard(cur, "security.Scanner(low).Scan", func() {
		if s, err := security.NewScannerWithSeverity(security.SeverityLow); err == nil {
			_ = s.Scan(tree)
		}
	})
}

func consumeStatements(cur *string, stmts []ast.Statement, trees *int) {
	if len(stmts) == 0 {
		return
	}
	t := &ast.AST{Statements: stmts}
	consumeTree(cur, t, trees)
}

// textEntryPoints runs every entry point that takes SQL text.
func textEntryPoints(cur *string, in []byte, dialect keywords.SQLDialect, strict bool, st *stats) {
	s := string(in)
	var toks []models.TokenWithSpan
	guard(cur, "tokenizer.Tokenize", func() {
		tkz := tokenizer.GetTokenizer()
		defer tokenizer.PutTokenizer(tkz)
		t, err := tkz.Tokenize(in)
		if err == nil {
			st.tokenized = true
			toks = append([]models.TokenWithSpan(nil), t...)
		} else {
			st.tokErr = err.Error()
		}
	})
	guard(cur, "tokenizer.TokenizeContext", func() {
		tkz := tokenizer.GetTokenizer()
		defer tokenizer.PutTokenizer(tkz)
		_, _ = tkz.TokenizeContext(context.Background(), in)
	})
	var dtoks []models.TokenWithSpan
	guard(cur, "tokenizer.NewWithDialect.Tokenize", func() {
		if tkz, err := tokenizer.NewWithDialect(dialect); err == nil {
			if t, err := tkz.Tokenize(in); err == nil {
				dtoks = t
			}
		}
	})
	guard(cur, "gosqlx.Parse", func() {
		if tree, err := gosqlx.Parse(s); err == nil {
			st.parsed = true
			consumeTree(cur, tree, &st.trees)
			guard(cur, "ast.ReleaseAST", func() { ast.ReleaseAST(tree) })
		}
	})
	guard(cur, "gosqlx.ParseBytes", func() { _, _ = gosqlx.ParseBytes(in) })
	guard(cur, "gosqlx.ParseWithContext", func() { _, _ = gosqlx.ParseWithContext(context.Background(), s) })
	guard(cur, "gosqlx.ParseWithTimeout", func() { _, _ = gosqlx.ParseWithTimeout(s, time.Minute) })
	guard(cur, "gosqlx.ParseMultiple", func() { _, _ = gosqlx.ParseMultiple([]string{s, "SELECT 1", s}) })
	guard(cur, "gosqlx.Validate", func() { _ = gosqlx.Validate(s) })
	guard(cur, "gosqlx.ValidateMultiple", func() { _ = gosqlx.ValidateMultiple([]string{"SELECT 1", s}) })
	guard(cur, "gosqlx.ParseWithRecovery", func() {
		stmts, _ := gosqlx.ParseWithRecovery(s)
		consumeStatements(cur, stmts, &st.trees)
	})
	guard(cur, "gosqlx.Format", func() { _, _ = gosqlx.Format(s, gosqlx.FormatOptions{}) })
	guard(cur, "gosqlx.Format(options)", func() {
		_, _ = gosqlx.Format(s, gosqlx.FormatOptions{IndentSize: 4, UppercaseKeywords: true, AddSemicolon: true, SingleLineLimit: 20})
	})
	guard(cur, "formatter.Format", func() { _, _ = formatter.New(formatter.Options{Uppercase: true}).Format(s) })
	guard(cur, "formatter.Format(compact)", func() { _, _ = formatter.New(formatter.Options{Compact: true, IndentSize: 8}).Format(s) })
	guard(cur, "parser.ParseBytes", func() { _, _ = parser.ParseBytes(in) })
	guard(cur, "parser.ParseBytesWithTokens", func() { _, _, _ = parser.ParseBytesWithTokens(in) })
	guard(cur, "parser.ParseWithDialect", func() {
		if tree, err := parser.ParseWithDialect(s, dialect); err == nil {
			consumeTree(cur, tree, &st.trees)
		}
	})
	guard(cur, "parser.ParseBytesWithDialect", func() { _, _ = parser.ParseBytesWithDialect(in, dialect) })
	guard(cur, "parser.Validate", func() { _ = parser.Validate(s) })
	guard(cur, "parser.ValidateBytes", func() { _ = parser.ValidateBytes(in) })
	guard(cur, "parser.ValidateWithDialect", func() { _ = parser.ValidateWithDialect(s, dialect) })
	guard(cur, "parser.ValidateBytesWithDialect", func() { _ = parser.ValidateBytesWithDialect(in, dialect) })
	for _, tk := range [][]models.TokenWithSpan{toks, dtoks} {
		if tk == nil {
			continue
		}
		modelTokenEntryPoints(cur, tk, string(dialect), strict, st)
	}
	guard(cur, "security.Scanner.ScanSQL", func() { _ = security.NewScanner().ScanSQL(s) })
	guard(cur, "pkg/security.Scanner.Scan", func() { _ = textsec.NewScanner().Scan(s) })
	guard(cur, "linter.LintString", func() {
		l := linter.New(cliRules()...)
		res := l.LintString(s, "x.sql")
		fixed := s
		for _, r := range l.Rules() {
			if !r.CanAutoFix() {
				continue
			}
			guard(cur, "linter rule "+r.ID()+" Fix", func() {
				if out, err := r.Fix(fixed, res.Violations); err == nil {
					fixed = out
				}
			})
		}
	})
}

// modelTokenEntryPoints runs every parser entry point that takes tokenizer output.
func modelTokenEntryPoints(cur *string, tk []models.TokenWithSpan, dialect string, strict bool, st *stats) {
	cp := func() []models.TokenWithSpan { return append([]models.TokenWithSpan(nil), tk...) }
	guard(cur, "Parser.ParseFromModelTokens", func() {
		p := parser.NewParser(popts(dialect, strict)...)
		defer p.Release()
		if tree, err := p.ParseFromModelTokens(cp()); err == nil {
			consumeTree(cur, tree, &st.trees)
		}
	})
	guard(cur, "Parser.ParseFromModelTokensWithPositions", func() {
		p := parser.NewParser(popts(dialect, strict)...)
		defer p.Release()
		_, _ = p.ParseFromModelTokensWithPositions(cp())
	})
	guard(cur, "Parser.ParseContextFromModelTokens", func() {
		p := parser.NewParser(popts(dialect, strict)...)
		defer p.Release()
		_, _ = p.ParseContextFromModelTokens(context.Background(), cp())
	})
	guard(cur, "Parser.ParseWithRecoveryFromModelTokens", func() {
		p := parser.NewParser(popts(dialect, strict)...)
		defer p.Release()
		stmts, _ := p.ParseWithRecoveryFromModelTokens(cp())
		consumeStatements(cur, stmts, &st.trees)
	})
	guard(cur, "pooled Parser.ParseFromModelTokens", func() {
		p := parser.GetParser()
		defer parser.PutParser(p)
		p.ApplyOptions(popts(dialect, strict)...)
		_, _ = p.ParseFromModelTokens(cp())
	})
}

// parserTokenEntryPoints runs every entry point that takes []token.Token.
func parserTokenEntryPoints(cur *string, tk []token.Token, pos []parser.TokenPosition, dialect string, strict bool, st *stats) {
	cp := func() []token.Token {
		if tk == nil {
			return nil
		}
		return append([]token.Token{}, tk...)
	}
	guard(cur, "Parser.Parse", func() {
		p := parser.NewParser(popts(dialect, strict)...)
		defer p.Release()
		if tree, err := p.Parse(cp()); err == nil {
			st.parsed = true
			consumeTree(cur, tree, &st.trees)
		}
	})
	guard(cur, "Parser.ParseContext", func() {
		p := parser.NewParser(popts(dialect, strict)...)
		defer p.Release()
		_, _ = p.ParseContext(context.Background(), cp())
	})
	guard(cur, "Parser.ParseWithRecovery", func() {
		p := parser.NewParser(popts(dialect, strict)...)
		defer p.Release()
		stmts, _ := p.ParseWithRecovery(cp())
		consumeStatements(cur, stmts, &st.trees)
	})
	guard(cur, "parser.ParseMultiWithRecovery", func() {
		res := parser.ParseMultiWithRecovery(cp())
		if res != nil {
			consumeStatements(cur, res.Statements, &st.trees)
			res.Release()
			res.Release() // documented as the caller's duty; a second call must be harmless
		}
	})
	guard(cur, "Parser.ParseWithPositions", func() {
		p := parser.NewParser(popts(dialect, strict)...)
		defer p.Release()
		_, _ = p.ParseWithPositions(&parser.ConversionResult{Tokens: cp(), PositionMapping: pos})
	})
	guard(cur, "Parser.ParseWithPositions(nil mapping)", func() {
		p := parser.NewParser(popts(dialect, strict)...)
		defer p.Release()
		_, _ = p.ParseWithPositions(&parser.ConversionResult{Tokens: cp()})
	})
	guard(cur, "pooled Parser.Parse twice", func() {
		p := parser.GetParser()
		defer parser.PutParser(p)
		_, _ = p.Parse(cp())
		_, _ = p.Parse(cp())
	})
}

type stats struct {
	tokenized, parsed bool
	tokErr            string
	trees             int
}

// run executes f under the hang budget, converting a panic into an error that names the entry point.
func run(budget time.Duration, f func(cur *string)) (err error, hung bool, at string) {
	cur := new(string)
	type res struct{ err error }
	ch := make(chan res, 1)
	go func() {
		defer func() {
			if r := recover(); r != nil {
				ch <- res{fmt.Errorf("%s panics: %v\n%s", *cur, r, trim(debug.Stack()))}
				return
			}
			ch <- res{}
		}()
		f(cur)
	}()
	select {
	case r := <-ch:
		return r.err, false, *cur
	case <-time.After(budget):
		return nil, true, *cur
	}
}

func trim(b []byte) string {
	lines := strings.Split(string(b), "\n")
	var keep []string
	for _, l := range lines {
		if strings.Contains(l, "runtime/debug.Stack") || strings.Contains(l, "runtime/panic.go") || strings.Contains(l, "debug/stack.go") {
			continue
		}
		keep = append(keep, l)
		if len(keep) >= 24 {
			break
		}
	}
	return strings.Join(keep, "\n")
}

// ---------------------------------------------------------------- byte inputs

type BytesCase struct {
	Input   []byte `json:"input"`
	Preview string `json:"preview"`
	Dialect string `json:"dialect"`
	Strict  bool   `json:"strict"`
	Child   bool   `json:"child,omitempty"`
}

func oracleBytes(c BytesCase) error {
	if c.Child && !hx.Leaf() {
		return bytesCheck.Contained(c, hangBudget(len(c.Input))+30*time.Second)
	}
	var st stats
	err, hung, at := run(hangBudget(len(c.Input)), func(cur *string) {
		textEntryPoints(cur, c.Input, keywords.SQLDialect(c.Dialect), c.Strict, &st)
	})
	if hung {
		herr := fmt.Errorf("%s does not return within %v on a %d-byte input %q", at, hangBudget(len(c.Input)), len(c.Input), c.Preview)
		if hx.Leaf() {
			return herr
		}
		bytesCheck.Abort(c, herr)
	}
	if err != nil {
		return fmt.Errorf("on %d-byte input %q (dialect %q, strict %v): %v", len(c.Input), c.Preview, c.Dialect, c.Strict, err)
	}
	if !hx.Leaf() {
		nontrivial := st.tokenized || (st.tokErr != "" && !strings.Contains(st.tokErr, "line 1, column 1"))
		classes := []string{"class_" + classOf[string(c.Input)+"\x00"+c.Dialect]}
		if st.tokenized {
			classes = append(classes, "tokenised")
		}
		if st.parsed {
			classes = append(classes, "parsed")
		}
		if st.trees > 0 {
			classes = append(classes, "trees_consumed")
		}
		if strings.Contains(st.tokErr, "E1008") || strings.Contains(st.tokErr, "panic") {
			classes = append(classes, "tokenizer_recovered_a_panic")
		}
		hx.Case("bytes_all_entry_points", nontrivial, string(c.Input)+"\x00"+c.Dialect+fmt.Sprint(c.Strict), classes...)
	}
	return nil
}

var (
	bytesCheck *hx.Check[BytesCase]
	tokCheck   *hx.Check[TokCase]
)

func init() {
	bytesCheck = hx.NewCheck("bytes_all_entry_points", oracleBytes)
	tokCheck = hx.NewCheck("tokens_all_entry_points", oracleTok)
	largeCheck = hx.NewCheck("large_inputs", oracleLarge)
}

func preview(b []byte) string {
	s := string(b)
	if len(s) > 300 {
		s = s[:300] + "…"
	}
	if !utf8.ValidString(s) {
		return fmt.Sprintf("%q", s)
	}
	return s
}

func TestBytesAllEntryPoints(t *testing.T) {
	hx.Rule("bytes_all_entry_points", "G-BYTES input (hostile-dictionary soup, model-grammar statements valid/every-prefix/corrupted/byte-mutated, repository corpus statements plain/mutated/spliced/scripts, raw bytes incl. invalid UTF-8) x dialect (12 incl. unknown) x strict: ~45 entry points per case (tokenizer x3, gosqlx.* x10, parser.* x8, 5 model-token parser methods x2 token streams, formatter, scanners, linter+fixes) and, on every tree or recovered statement list obtained, 16 consumers (SQL, Format x3, CLI formatter x2, Inspect, Walk, Extract* x6, Scan x2, ReleaseAST); oracle: every call returns (panic => failure naming the entry point; no return within 60 s => hang; process death => caught by the containing parent); non-trivial = input tokenised or failed in the tokenizer beyond offset 0; distinct = input bytes + dialect + strict")
	bytesCheck.Rapid(t, hx.N(20000, 400000), func(rt *rapid.T) BytesCase {
		in := bytegen.Gen(rt)
		c := BytesCase{Input: in.Data, Preview: preview(in.Data)}
		c.Dialect = string(dialects[rapid.IntRange(0, len(dialects)-1).Draw(rt, "dialect")])
		c.Strict = rapid.IntRange(0, 3).Draw(rt, "strict") == 3
		hx.Sample("bytes_all_entry_points", map[string]interface{}{"class": in.Class, "input": c.Preview, "dialect": c.Dialect, "strict": c.Strict})
		classOf[string(c.Input)+"\x00"+c.Dialect] = in.Class
		return c
	})
}

var classOf = map[string]string{}

// ---------------------------------------------------------------- inputs near the size limit

type LargeCase struct {
	Family string `json:"family"`
	N      int    `json:"n"`
}

var largeCheck *hx.Check[LargeCase]

const largeBudget = 15 * time.Minute

func oracleLarge(c LargeCase) error {
	if !hx.Leaf() {
		return largeCheck.Contained(c, largeBudget+time.Minute)
	}
	in, err := costmeas.Render(c.Family, "", c.N)
	if err != nil {
		return fmt.Errorf("HARNESS: %v", err)
	}
	var st stats
	perr, hung, at := run(largeBudget, func(cur *string) {
		textEntryPoints(cur, []byte(in), "", false, &st)
	})
	if hung {
		return fmt.Errorf("%s does not return within %v on family %s at %d bytes", at, largeBudget, c.Family, len(in))
	}
	if perr != nil {
		return fmt.Errorf("family %s at %d bytes: %v", c.Family, len(in), perr)
	}
	return nil
}

func TestLargeInputs(t *testing.T) {
	hx.Rule("large_inputs", "every input family of the C20 catalogue (grammar compositions and lexical families, incl. families of long lexemes that stay under the token limit) rendered at 1 MiB and at MaxInputSize-1, MaxInputSize, MaxInputSize+1 bytes (quick: 1 MiB for every other family, the limit sizes for six families; thorough: everything), through all text entry points and tree consumers in a child process; oracle: every call returns (value or error), the child survives, the whole table finishes within 15 minutes; non-trivial = size >= 1 MiB; exhaustive over the catalogue")
	hx.Exhaustive("large_inputs", true)
	var fams []string
	for _, c := range famgen.Compositions {
		fams = append(fams, "comp:"+c.Name)
	}
	for _, f := range famgen.Lexical {
		fams = append(fams, f.Name)
	}
	limitFams := map[string]bool{"huge_literal": true, "long_identifiers_list": true, "wide_statements": true, "comp:or_chain": true, "line_comments": true, "long_literals_list": true}
	idx := 0
	for fi, f := range fams {
		sizes := []int{1 << 20}
		if hx.Tier() != "thorough" && fi%2 == 1 && !limitFams[f] {
			continue // quick tier: every other family (all of them in the thorough tier)
		}
		if hx.Tier() == "thorough" || limitFams[f] {
			sizes = append(sizes, tokenizer.MaxInputSize-1, tokenizer.MaxInputSize, tokenizer.MaxInputSize+1)
		}
		for _, n := range sizes {
			idx++
			if idx%hx.Shards() != hx.Shard() {
				continue
			}
			c := LargeCase{Family: f, N: n}
			hx.Case("large_inputs", true, fmt.Sprint(c), "large_"+fmt.Sprint(n>>20)+"MiB")
			hx.Sample("large_inputs", c)
			largeCheck.One(t, c)
		}
	}
}

// ---------------------------------------------------------------- token inputs

type TokJ struct {
	Type int    `json:"type"`
	Lit  string `json:"lit"`
}

type TokCase struct {
	Toks    []TokJ `json:"toks"`
	Nil     bool   `json:"nil,omitempty"`
	PosLen  int    `json:"poslen"` // length of the position mapping handed to ParseWithPositions (-1: same as tokens)
	Model   bool   `json:"model"`  // also offer the sequence as models.TokenWithSpan with arbitrary spans
	Dialect string `json:"dialect"`
	Strict  bool   `json:"strict"`
	Child   bool   `json:"child,omitempty"`
}

func (c TokCase) String() string {
	var sb strings.Builder
	for i, t := range c.Toks {
		if i > 0 {
			sb.WriteByte(' ')
		}
		fmt.Fprintf(&sb, "%s/%q", models.TokenType(t.Type).String(), t.Lit)
		if sb.Len() > 600 {
			sb.WriteString(" …")
			break
		}
	}
	return sb.String()
}

func oracleTok(c TokCase) error {
	if c.Child && !hx.Leaf() {
		return tokCheck.Contained(c, hangBudget(len(c.Toks))+30*time.Second)
	}
	var tk []token.Token
	if !c.Nil {
		tk = make([]token.Token, 0, len(c.Toks))
		for _, t := range c.Toks {
			tk = append(tk, token.Token{Type: models.TokenType(t.Type), Literal: t.Lit})
		}
	}
	var pos []parser.TokenPosition
	n := c.PosLen
	if n < 0 {
		n = len(tk)
	}
	for i := 0; i < n; i++ {
		pos = append(pos, parser.TokenPosition{OriginalIndex: i, Start: models.Location{Line: 1, Column: i + 1}, End: models.Location{Line: 1, Column: i + 2}})
	}
	var st stats
	err, hung, at := run(hangBudget(len(c.Toks)), func(cur *string) {
		parserTokenEntryPoints(cur, tk, pos, c.Dialect, c.Strict, &st)
		if c.Model {
			var mt []models.TokenWithSpan
			for i, t := range c.Toks {
				mt = append(mt, models.TokenWithSpan{Token: models.Token{Type: models.TokenType(t.Type), Value: t.Lit},
					Start: models.Location{Line: 1 - i%3, Column: len(c.Toks) - i}, End: models.Location{Line: i % 2, Column: i}})
			}
			modelTokenEntryPoints(cur, mt, c.Dialect, c.Strict, &st)
		}
	})
	if hung {
		herr := fmt.Errorf("%s does not return within %v on the %d-token sequence [%s]", at, hangBudget(len(c.Toks)), len(c.Toks), c.String())
		if hx.Leaf() {
			return herr
		}
		tokCheck.Abort(c, herr)
	}
	if err != nil {
		return fmt.Errorf("on the %d-token sequence [%s] (dialect %q, strict %v): %v", len(c.Toks), c.String(), c.Dialect, c.Strict, err)
	}
	return nil
}

var allTypes = func() []int {
	var out []int
	seen := map[string]bool{}
	for i := 0; i < 1200; i++ {
		s := models.TokenType(i).String()
		if s == "" || strings.HasPrefix(s, "TokenType(") || s == "UNKNOWN" && i != 0 || seen[s] {
			continue
		}
		seen[s] = true
		out = append(out, i)
	}
	return out
}()

func genTokens(rt *rapid.T) ([]TokJ, string) {
	base := func() []TokJ {
		in := bytegen.Gen(rt)
		tkz := tokenizer.GetTokenizer()
		defer tokenizer.PutTokenizer(tkz)
		mt, err := tkz.Tokenize(in.Data)
		if err != nil {
			mt, _ = tkz.Tokenize([]byte(sqlgen.SQL(sqlgen.Statement(sqlgen.New(rt, sqlgen.AllFeatures())).Toks)))
		}
		var out []TokJ
		for _, t := range mt {
			out = append(out, TokJ{int(t.Token.Type), t.Token.Value})
		}
		return out
	}
	switch rapid.IntRange(0, 7).Draw(rt, "tok_class") {
	case 0:
		t := base()
		if len(t) > 0 {
			t = t[:len(t)-1]
		}
		return t, "no_eof"
	case 1:
		return base(), "tokenizer_output"
	case 2:
		t := base()
		n := rapid.IntRange(0, len(t)).Draw(rt, "prefix")
		return t[:n], "prefix_no_eof"
	case 3:
		t := base()
		for i := range t {
			if rapid.IntRange(0, 3).Draw(rt, "zero") == 0 {
				t[i].Type = 0
			}
		}
		if rapid.Bool().Draw(rt, "dropeof") && len(t) > 0 {
			t = t[:len(t)-1]
		}
		return t, "typeless_tokens"
	case 4:
		t := base()
		for i := range t {
			if rapid.IntRange(0, 4).Draw(rt, "retype") == 0 {
				t[i].Type = allTypes[rapid.IntRange(0, len(allTypes)-1).Draw(rt, "type")]
			}
		}
		return t, "retyped_tokens"
	case 5:
		n := rapid.IntRange(0, 12).Draw(rt, "n")
		var t []TokJ
		for i := 0; i < n; i++ {
			t = append(t, TokJ{allTypes[rapid.IntRange(0, len(allTypes)-1).Draw(rt, "type")], bytegen.Hostile[rapid.IntRange(0, len(bytegen.Hostile)-1).Draw(rt, "lit")]})
		}
		return t, "random_types"
	case 6:
		t := base()
		if len(t) > 1 {
			i := rapid.IntRange(0, len(t)-1).Draw(rt, "eofpos")
			t = append(append(append([]TokJ{}, t[:i]...), TokJ{int(models.TokenTypeEOF), ""}), t[i:]...)
		}
		return t, "eof_in_the_middle"
	default:
		return nil, "empty"
	}
}

func TestTokensAllEntryPoints(t *testing.T) {
	hx.Rule("tokens_all_entry_points", "G-TOK parser-token sequences that no tokenizer run produces (EOF missing, every prefix without EOF, Type-less tokens, random re-typing over all token types, fully random (type, literal) sequences, EOF in the middle, empty, nil) built from G-BYTES tokenisations x dialect x strict x position-mapping length (equal/shorter/longer/nil): Parser.Parse, ParseContext, ParseWithRecovery, ParseWithPositions (x2), pooled parser twice, and the five models.TokenWithSpan methods with arbitrary (negative, decreasing) spans; each resulting tree goes through all consumers; oracle as for bytes; non-trivial = sequence of >= 2 tokens; distinct = the sequence")
	tokCheck.Rapid(t, hx.N(10000, 200000), func(rt *rapid.T) TokCase {
		toks, class := genTokens(rt)
		c := TokCase{Toks: toks}
		if class == "empty" {
			c.Nil = rapid.Bool().Draw(rt, "nil")
		}
		c.PosLen = rapid.SampledFrom([]int{-1, -1, 0, 1, len(toks) / 2, len(toks) + 3}).Draw(rt, "poslen")
		c.Model = rapid.IntRange(0, 2).Draw(rt, "model") != 0
		c.Dialect = string(dialects[rapid.IntRange(0, len(dialects)-1).Draw(rt, "dialect")])
		c.Strict = rapid.IntRange(0, 3).Draw(rt, "strict") == 3
		hx.Case("tokens_all_entry_points", len(toks) >= 2, c.String()+c.Dialect, "tok_"+class)
		hx.Sample("tokens_all_entry_points", map[string]interface{}{"class": class, "tokens": c.String()})
		return c
	})
}
