package c06

import (
	"encoding/json"
	"fmt"
	"regexp"
	"sort"
	"strings"
	"testing"

	cli "github.com/ajitpratap0/GoSQLX/cmd/gosqlx/cmd"
	"github.com/ajitpratap0/GoSQLX/pkg/formatter"
	"github.com/ajitpratap0/GoSQLX/pkg/gosqlx"
	"github.com/ajitpratap0/GoSQLX/pkg/sql/ast"
	"pgregory.net/rapid"
	"verif/gen/lexgen"
	"verif/gen/sqlgen"
	"verif/internal/astdump"
	"verif/internal/hx"
)

func TestMain(m *testing.M) { hx.Main(m, "C06") }

// Opts is the union of the option sets of the five serialisers.
type Opts struct {
	Indent    int  `json:"indent"` // 0, 2, 4
	Tabs      bool `json:"tabs"`
	Upper     bool `json:"upper"`
	Lower     bool `json:"lower"` // ast.Format only
	Width     int  `json:"width"` // 0 or 80
	Newlines  bool `json:"newlines"`
	Semicolon bool `json:"semicolon"`
	Compact   bool `json:"compact"`
	Align     bool `json:"align"`
}

type RTCase struct {
	SQL        string `json:"sql"`
	Serialiser string `json:"serialiser"` // sql | astformat | gosqlxformat | formatter | cli
	Opts       Opts   `json:"opts"`
}

var serialisers = []string{"sql", "astformat", "gosqlxformat", "formatter", "cli"}

func serialise(name string, o Opts, sql string) (string, error) {
	switch name {
	case "sql":
		t, err := gosqlx.Parse(sql)
		if err != nil {
			return "", err
		}
		return t.SQL(), nil
	case "astformat":
		t, err := gosqlx.Parse(sql)
		if err != nil {
			return "", err
		}
		fo := ast.FormatOptions{IndentWidth: o.Indent, LineWidth: o.Width, NewlinePerClause: o.Newlines, AddSemicolon: o.Semicolon}
		if o.Tabs {
			fo.IndentStyle = ast.IndentTabs
		}
		fo.KeywordCase = ast.KeywordPreserve
		if o.Upper {
			fo.KeywordCase = ast.KeywordUpper
		} else if o.Lower {
			fo.KeywordCase = ast.KeywordLower
		}
		return t.Format(fo), nil
	case "gosqlxformat":
		return gosqlx.Format(sql, gosqlx.FormatOptions{IndentSize: o.Indent, UppercaseKeywords: o.Upper, AddSemicolon: o.Semicolon, SingleLineLimit: o.Width})
	case "formatter":
		return formatter.New(formatter.Options{IndentSize: o.Indent, Uppercase: o.Upper, Compact: o.Compact}).Format(sql)
	case "cli":
		t, err := gosqlx.Parse(sql)
		if err != nil {
			return "", err
		}
		ind := strings.Repeat(" ", max(o.Indent, 0))
		if o.Tabs {
			ind = "\t"
		}
		return cli.NewSQLFormatter(cli.FormatterOptions{Indent: ind, Compact: o.Compact, UppercaseKw: o.Upper, AlignColumns: o.Align}).Format(t)
	}
	return "", fmt.Errorf("unknown serialiser %s", name)
}

func normDump(sql string) (string, error) {
	t, err := gosqlx.Parse(sql)
	if err != nil {
		return "", err
	}
	return astdump.DumpOpt(t.Statements, astdump.Options{FoldKeywords: true}), nil
}

func firstLine(err error) string {
	s := err.Error()
	if i := strings.IndexByte(s, '\n'); i >= 0 {
		s = s[:i]
	}
	return s
}

func oracleRT(c RTCase) error {
	want, err := normDump(c.SQL)
	if err != nil {
		return nil // only accepted inputs are in the domain
	}
	y, err := serialise(c.Serialiser, c.Opts, c.SQL)
	if err != nil {
		return fmt.Errorf("[%s] serialiser fails on accepted input: %v", c.Serialiser, firstLine(err))
	}
	got, err := normDump(y)
	if err != nil {
		return fmt.Errorf("[%s] output is not accepted: %v\n output: %s", c.Serialiser, firstLine(err), y)
	}
	if got != want {
		return fmt.Errorf("[%s] output parses to a different tree: %s\n output: %s", c.Serialiser, astdump.Diff(got, want), y)
	}
	z, err := serialise(c.Serialiser, c.Opts, y)
	if err != nil {
		return fmt.Errorf("[%s] formatting its own output fails: %v", c.Serialiser, firstLine(err))
	}
	if z != y {
		return fmt.Errorf("[%s] formatting formatted output changes it:\n first:  %q\n second: %q", c.Serialiser, y, z)
	}
	return nil
}

var rtCheck = hx.NewCheck("roundtrip", oracleRT)

func init() {
	// --mkcase arg: serialiser|{opts json}|sql
	hx.RegisterMaker("roundtrip", func(arg string) (interface{}, error) {
		parts := strings.SplitN(arg, "|", 3)
		if len(parts) != 3 {
			return nil, fmt.Errorf("want serialiser|{opts}|sql")
		}
		var o Opts
		if err := json.Unmarshal([]byte(parts[1]), &o); err != nil {
			return nil, err
		}
		return RTCase{SQL: parts[2], Serialiser: parts[0], Opts: o}, nil
	})
}

func features(ser string) sqlgen.Features {
	f := sqlgen.AllFeatures()
	f.Merge = hx.Allowed("c06.merge")
	f.DDL = hx.Allowed("c06.ddl")
	f.QuotedDDLNames = hx.Allowed("c06.ddl_quoted_names")
	f.IndexNulls = hx.Allowed("c06.index_nulls")
	f.DDLExtras = hx.Allowed("c06.ddl_extras")
	f.Alter = hx.Allowed("c06.alter_table")
	f.AlterQualified = hx.Allowed("c06.alter_qualified_table")
	f.MySQL = hx.Allowed("c06.mysql_forms")
	f.Partitions = hx.Allowed("c06.partitions")
	f.QuotedOddNames = true
	f.Corners = true
	f.ReturningAlias = true
	f.QuotedDotName = hx.Allowed("c06.quoted_dot_name")
	f.QuotedDigitsName = hx.Allowed("c06.quoted_digits_name")
	if ser == "cli" && !hx.Allowed("c06.cli.unimplemented_clauses") {
		// listed finding: the CLI formatter's own statement printers drop clauses
		// they do not implement; steer the cli serialiser around exactly those
		f.NoDistinctOn, f.NoFetch, f.NoForClause, f.NoReturning, f.NoOnConflict, f.NoDMLWith, f.NoMaterialized = true, true, true, true, true, true, true
		// ... nor table constraints, index methods and predicates, TRUNCATE/REFRESH, or quoting in DDL and MERGE
		f.DDL, f.Merge, f.MySQL, f.Partitions = false, false, false, false
	}
	return f
}

func genOpts(rt *rapid.T) Opts {
	return Opts{
		Indent:    rapid.SampledFrom([]int{2, 0, 4, -2}).Draw(rt, "indent"),
		Tabs:      rapid.Bool().Draw(rt, "tabs"),
		Upper:     rapid.Bool().Draw(rt, "upper"),
		Lower:     rapid.Bool().Draw(rt, "lower"),
		Width:     rapid.SampledFrom([]int{0, 80}).Draw(rt, "width"),
		Newlines:  rapid.Bool().Draw(rt, "newlines"),
		Semicolon: rapid.Bool().Draw(rt, "semicolon"),
		Compact:   rapid.Bool().Draw(rt, "compact"),
		Align:     rapid.Bool().Draw(rt, "align"),
	}
}

func genCase(rt *rapid.T) RTCase {
	ser := rapid.SampledFrom(serialisers).Draw(rt, "serialiser")
	g := sqlgen.New(rt, features(ser))
	st := sqlgen.Statement(g)
	sql := sqlgen.SQL(st.Toks)
	var cl []string
	for k := range st.Stats {
		cl = append(cl, k)
	}
	sort.Strings(cl)
	nt := st.Stats["required_paren"] > 0 || st.Stats["quoted_keyword_ident"] > 0 || st.Stats["is_not_null"]+st.Stats["not_exists"]+st.Stats["not"] > 0 ||
		st.Stats["window_frame"] > 0 || st.Stats["join_using"] > 0
	if rapid.IntRange(0, 3).Draw(rt, "commented_layout") == 3 {
		// the same tokens with drawn separators, line and block comments between them: the text-taking
		// formatters carry comments over into their output
		lx := sqlgen.Lexemes(st.Toks)
		lf := lexgen.Features{StringStartsWithDoubledQuote: true, TrailingComment: true, Comments: true}
		sql = lexgen.Render(lx, lexgen.GenSeps(rt, lf, lx, "l")).Src
		cl = append(cl, "commented_input")
	}
	hx.Case("roundtrip", nt, ser+"|"+st.Kind+"|"+strings.Join(cl, ","), append(cl, "ser_"+ser)...)
	hx.Sample("roundtrip", map[string]string{"serialiser": ser, "sql": sql})
	return RTCase{SQL: sql, Serialiser: ser, Opts: genOpts(rt)}
}

var strip = regexp.MustCompile(`"[^"]*"|'[^']*'|[0-9]+`)

func TestRoundTrip(t *testing.T) {
	hx.Rule("roundtrip", "G-SQL statements x {AST.SQL, AST.Format, gosqlx.Format, formatter.Format, CLI SQLFormatter} x drawn option sets; output must be accepted, re-parse to the same tree (keyword/operator-word fields case-folded, names and literals exact) and be a fixed point of the same serialiser; non-trivial = statement needs a precedence parenthesis, has a quoted keyword identifier, a NOT form, a window frame or USING; distinct = serialiser + statement kind + feature set")
	if hx.Surveying() {
		rtCheck.Survey(t, 20000, genCase, func(c RTCase) int { return len(c.SQL) }, func(err error) string {
			m := firstLine(err)
			if i := strings.Index(err.Error(), "want: …"); i >= 0 {
				w := err.Error()[i+60:]
				if len(w) > 70 {
					w = w[:70]
				}
				m = "[" + m[1:4] + "] DIFF want " + w
			}
			m = strip.ReplaceAllString(m, "_")
			if len(m) > 110 {
				m = m[:110]
			}
			return m
		})
		return
	}
	rtCheck.Rapid(t, hx.N(100000, 1000000), genCase)
}

// FuzzRoundTrip: coverage-guided search over the same generator (thorough tier).
func FuzzRoundTrip(f *testing.F) { rtCheck.Fuzz(f, genCase) }
