package c02

import (
	"bytes"
	"context"
	"errors"
	"fmt"
	"github.com/ajitpratap0/GoSQLX/pkg/formatter"
	"runtime/debug"
	"strings"
	"testing"
	"time"

	goerrors "github.com/ajitpratap0/GoSQLX/pkg/errors"
	"github.com/ajitpratap0/GoSQLX/pkg/gosqlx"
	"github.com/ajitpratap0/GoSQLX/pkg/sql/keywords"
	"github.com/ajitpratap0/GoSQLX/pkg/sql/parser"
	"github.com/ajitpratap0/GoSQLX/pkg/sql/tokenizer"
	"pgregory.net/rapid"
	"verif/internal/hx"
)

func TestMain(m *testing.M) { hx.MainContained(m, "C02") }

// ---------------------------------------------------------------- nesting catalogue

type kind int

const (
	E kind = iota // expression hole
	Q             // query hole
	T             // table-reference hole
)

// prod is a self-embedding production: pre HOLE post, consuming a hole of kind
// In and offering a hole of kind Out inside.
type prod struct {
	Name      string
	In, Out   kind
	Pre, Post string
	// Mode: "" = a bracketing production, one level of textual nesting;
	// "place" = puts a hole into a clause without adding a level (SELECT <expr>, FROM <table>);
	// "chain" = a bracket-free continuation (UNION ALL <query>): not nesting, but it must
	// not cost unbounded stack either.
	Mode string
}

var prods = []prod{
	{"paren", E, E, "(", ")", ""},
	{"function_arg", E, E, "f(", ")", ""},
	{"function_2nd_arg", E, E, "COALESCE(1, ", ")", ""},
	{"case_when_cond", E, E, "CASE WHEN ", " THEN 1 END", ""},
	{"case_then", E, E, "CASE WHEN 1 = 1 THEN ", " END", ""},
	{"case_else", E, E, "CASE WHEN 1 = 1 THEN 1 ELSE ", " END", ""},
	{"case_operand", E, E, "CASE ", " WHEN 1 THEN 1 END", ""},
	{"not", E, E, "NOT ", "", ""},
	{"unary_minus", E, E, "- ", "", ""},
	{"in_list", E, E, "x IN (", ")", ""},
	{"between_low", E, E, "x BETWEEN ", " AND 1", ""},
	{"between_high", E, E, "x BETWEEN 1 AND ", "", "chain"},
	{"array_ctor", E, E, "ARRAY[", "]", ""},
	{"subscript", E, E, "a[", "]", ""},
	{"paren_cast", E, E, "(", ")::int", ""},
	{"cast_call", E, E, "CAST(", " AS int)", ""},
	{"window_partition", E, E, "sum(1) OVER (PARTITION BY ", ")", ""},
	{"window_order", E, E, "sum(1) OVER (ORDER BY ", ")", ""},
	{"filter_where", E, E, "count(*) FILTER (WHERE ", ")", ""},
	{"binary_right_paren", E, E, "1 + (", ")", ""},
	{"and_right", E, E, "1 = 1 AND (", ")", ""},
	{"like_pattern", E, E, "x LIKE (", ")", ""},
	{"is_null_of_paren", E, E, "(", ") IS NULL", ""},
	{"extract", E, E, "EXTRACT(YEAR FROM ", ")", ""},
	{"interval_free_tuple", E, E, "(1, ", ")", ""},
	{"window_frame_offset", E, E, "sum(1) OVER (ORDER BY a ROWS ", " PRECEDING)", ""},
	{"window_frame_between", E, E, "sum(1) OVER (ORDER BY a ROWS BETWEEN ", " PRECEDING AND CURRENT ROW)", ""},
	{"aggregate_order_by", E, E, "array_agg(a ORDER BY ", ")", ""},
	{"within_group", E, E, "percentile_cont(0.5) WITHIN GROUP (ORDER BY ", ")", ""},
	{"substring_from", E, E, "SUBSTRING(", " FROM 1)", ""},
	{"position_in", E, E, "POSITION('a' IN ", ")", ""},
	{"array_slice", E, E, "a[1:", "]", ""},
	{"tuple_first", E, E, "(", ", 1)", ""},
	{"in_list_lhs", E, E, "(", ") IN (1, 2)", ""},
	{"like_escape_free_rhs", E, E, "x NOT LIKE (", ")", ""},
	{"is_distinct_paren", E, E, "(", ") IS NOT NULL", ""},
	{"json_arrow_rhs", E, E, "a -> (", ")", ""},
	{"concat_right_paren", E, E, "'x' || (", ")", ""},
	{"interval_paren_free_cmp", E, E, "1 < (", ")", ""},
	{"scalar_subquery", E, Q, "(", ")", ""},
	{"exists", E, Q, "EXISTS (", ")", ""},
	{"not_exists", E, Q, "NOT EXISTS (", ")", ""},
	{"any_subquery", E, Q, "x = ANY (", ")", ""},
	{"all_subquery", E, Q, "x > ALL (", ")", ""},
	{"in_subquery", E, Q, "x IN (", ")", ""},
	{"select_item", Q, E, "SELECT ", "", "place"},
	{"select_item_alias", Q, E, "SELECT ", " AS c FROM t", "place"},
	{"where", Q, E, "SELECT 1 FROM t WHERE ", "", "place"},
	{"group_by", Q, E, "SELECT 1 FROM t GROUP BY ", "", "place"},
	{"having", Q, E, "SELECT 1 FROM t GROUP BY a HAVING ", "", "place"},
	{"order_by", Q, E, "SELECT 1 FROM t ORDER BY ", "", "place"},
	{"join_on", Q, E, "SELECT 1 FROM t JOIN u ON ", "", "place"},
	{"limit", Q, E, "SELECT 1 FROM t LIMIT ", "", "place"},
	{"offset", Q, E, "SELECT 1 FROM t LIMIT 1 OFFSET ", "", "place"},
	{"distinct_on", Q, E, "SELECT DISTINCT ON (", ") a FROM t", "place"},
	{"values_row_in_insert_select", Q, E, "SELECT a FROM t WHERE b IN (1, ", ")", "place"},
	{"derived_table", Q, Q, "SELECT * FROM (", ") d", ""},
	{"derived_table_in_join", Q, Q, "SELECT * FROM t JOIN (", ") d ON 1 = 1", ""},
	{"derived_table_after_comma", Q, Q, "SELECT * FROM t, (", ") d", ""},
	{"lateral", Q, Q, "SELECT * FROM t, LATERAL (", ") d", ""},
	{"cte", Q, Q, "WITH c AS (", ") SELECT 1 FROM c", ""},
	{"cte_second", Q, Q, "WITH b AS (SELECT 1), c AS (", ") SELECT 1 FROM c", ""},
	{"union_right_paren", Q, Q, "SELECT 1 UNION (", ")", ""},
	{"union_right", Q, Q, "SELECT 1 UNION ALL ", "", "chain"},
	{"except_right", Q, Q, "SELECT 1 EXCEPT ", "", "chain"},
	{"paren_query", Q, Q, "(", ")", ""},
	{"from", Q, T, "SELECT * FROM ", "", "place"},
	{"from_second", Q, T, "SELECT * FROM t, ", "", "place"},
	{"join_right", Q, T, "SELECT * FROM t JOIN ", " ON 1 = 1", "place"},
	{"paren_join", T, T, "(a JOIN ", " ON 1 = 1)", ""},
	{"paren_join_left", T, T, "(", " JOIN b ON 1 = 1)", ""},
	{"paren_table", T, T, "(", ")", ""},
	{"derived", T, Q, "(", ") d", ""},
	{"lateral_derived", T, Q, "LATERAL (", ") d", ""},
	// Forms the parser does not accept today (the documentation lists several of them as
	// supported; see C03's open findings). While they are rejected at depth 2 the family is
	// skipped and listed; the day one of them is accepted its towers are held to the limit
	// like every other production.
	{"future_derived_with_clause", Q, Q, "SELECT * FROM (WITH w AS (SELECT 1) ", ") d", ""},
	{"future_derived_with_clause_in_join", Q, Q, "SELECT * FROM t JOIN (WITH w AS (SELECT 1) ", ") d ON 1 = 1", ""},
	{"future_derived_union_left", Q, Q, "SELECT * FROM (", " UNION SELECT 1) d", ""},
	{"future_derived_paren_query", Q, Q, "SELECT * FROM ((", ")) d", ""},
	{"future_grouping_function", E, E, "GROUPING(", ")", ""},
	{"future_is_true_of_paren", E, E, "(", ") IS TRUE", ""},
	{"future_select_top", Q, E, "SELECT TOP (", ") a FROM t", "place"},
	{"future_table_function", Q, E, "SELECT * FROM generate_series(1, ", ") g", "place"},
	{"future_values_derived", Q, E, "SELECT * FROM (VALUES (", ")) v", "place"},
	{"future_in_tuple_subquery", E, Q, "(a, b) IN (", ")", ""},
	{"future_array_subquery", E, Q, "ARRAY(", ")", ""},
	// (appended: listed findings refer to productions by index)
	{"match_against_search", E, E, "MATCH (a) AGAINST (", ")", ""},
}

func future(p prod) bool { return strings.HasPrefix(p.Name, "future_") }

// top-level contexts: a statement with one hole
var tops = []prod{
	{"query", Q, Q, "", "", ""},
	{"select_expr", E, E, "SELECT ", "", ""},
	{"where_expr", E, E, "SELECT 1 FROM t WHERE ", "", ""},
	{"insert_select", Q, Q, "INSERT INTO t ", "", ""},
	{"insert_values", E, E, "INSERT INTO t VALUES (", ")", ""},
	{"update_set", E, E, "UPDATE t SET a = ", "", ""},
	{"update_where", E, E, "UPDATE t SET a = 1 WHERE ", "", ""},
	{"delete_where", E, E, "DELETE FROM t WHERE ", "", ""},
	{"create_view", Q, Q, "CREATE VIEW v AS ", "", ""},
	{"create_table_as", Q, Q, "CREATE TABLE n AS ", "", ""},
	{"create_check", E, E, "CREATE TABLE n (a int CHECK (", "))", ""},
	{"create_default", E, E, "CREATE TABLE n (a int DEFAULT (", "))", ""},
	{"merge_on", E, E, "MERGE INTO t USING s ON ", " WHEN MATCHED THEN DELETE", ""},
	{"returning", E, E, "DELETE FROM t RETURNING ", "", ""},
	{"on_conflict_set", E, E, "INSERT INTO t VALUES (1) ON CONFLICT (a) DO UPDATE SET a = ", "", ""},
	{"on_conflict_where", E, E, "INSERT INTO t VALUES (1) ON CONFLICT (a) DO UPDATE SET a = 1 WHERE ", "", ""},
	{"merge_when_condition", E, E, "MERGE INTO t USING s ON 1 = 1 WHEN MATCHED AND ", " THEN DELETE", ""},
	{"merge_set", E, E, "MERGE INTO t USING s ON 1 = 1 WHEN MATCHED THEN UPDATE SET a = ", "", ""},
	{"index_where", E, E, "CREATE INDEX ix ON t (a) WHERE ", "", ""},
	{"view_query", Q, Q, "CREATE MATERIALIZED VIEW mv AS ", "", ""},
	{"second_statement", Q, Q, "SELECT 1; ", "", ""},
	{"from_table", T, T, "SELECT * FROM ", "", ""},
	{"join_table", T, T, "SELECT * FROM t JOIN ", " ON 1 = 1", ""},
	{"delete_using", T, T, "DELETE FROM t USING ", "", ""},
	{"replace_values", E, E, "REPLACE INTO t VALUES (", ")", ""},
	{"on_duplicate_key_set", E, E, "INSERT INTO t VALUES (1) ON DUPLICATE KEY UPDATE a = ", "", ""},
	{"partition_less_than", E, E, "CREATE TABLE n (a int) PARTITION BY RANGE (a) (PARTITION p0 VALUES LESS THAN (", "))", ""},
	{"partition_in", E, E, "CREATE TABLE n (a int) PARTITION BY LIST (a) (PARTITION p0 VALUES IN (1, ", "))", ""},
	{"partition_from", E, E, "CREATE TABLE n (a int) PARTITION BY RANGE (a) (PARTITION p0 VALUES FROM (", ") TO (9))", ""},
	{"partition_to", E, E, "CREATE TABLE n (a int) PARTITION BY RANGE (a) (PARTITION p0 VALUES FROM (1) TO (", "))", ""},
	{"merge_insert_values", E, E, "MERGE INTO t USING s ON 1 = 1 WHEN NOT MATCHED THEN INSERT (a) VALUES (", ")", ""},
	{"merge_source_query", Q, Q, "MERGE INTO t USING (", ") s ON 1 = 1 WHEN MATCHED THEN DELETE", ""},
	{"alter_add_column_default", E, E, "ALTER TABLE t ADD COLUMN c int DEFAULT (", ")", ""},
	{"alter_add_check", E, E, "ALTER TABLE t ADD CONSTRAINT ck CHECK (", ")", ""},
	{"insert_returning", E, E, "INSERT INTO t VALUES (1) RETURNING ", "", ""},
	{"update_returning", E, E, "UPDATE t SET a = 1 RETURNING ", "", ""},
	{"table_check_constraint", E, E, "CREATE TABLE n (a int, CONSTRAINT ck CHECK (", "))", ""},
	{"with_insert", Q, Q, "WITH c AS (", ") INSERT INTO t SELECT 1 FROM c", ""},
	{"with_delete_where", E, E, "WITH c AS (SELECT 1) DELETE FROM t WHERE ", "", ""},
}

func terminal(k kind) string {
	switch k {
	case Q:
		return "SELECT 1"
	case T:
		return "t9"
	}
	return "1"
}

type NestCase struct {
	Top     int    `json:"top"`
	Pattern []int  `json:"pattern"` // production indices, repeated cyclically
	Depth   int    `json:"depth"`   // levels: productions applied, not counting clause placements
	Sep     string `json:"sep"`     // "" (one line) or "\n" after each opener
	Child   bool   `json:"child,omitempty"`
}

func (c NestCase) names() string {
	var n []string
	for _, p := range c.Pattern {
		n = append(n, prods[p].Name)
	}
	return tops[c.Top].Name + " > (" + strings.Join(n, " > ") + ")*"
}

// tightHole: productions whose hole only takes an operand that binds tighter than comparison
// (the operand of unary minus, a BETWEEN bound). operandFirst: productions whose text starts
// with an operand followed by an operator. Putting the second straight into the first would
// not nest (- x IN (...) is (-x) IN (...)), so build() parenthesises that junction; the extra
// parentheses are real nesting that is not counted, which only makes the count conservative.
var tightHole = map[string]bool{"unary_minus": true, "between_low": true, "between_high": true, "not": true} // NOT x AND (...) is (NOT x) AND (...)
var operandFirst = map[string]bool{"in_list": true, "between_low": true, "between_high": true, "binary_right_paren": true, "and_right": true,
	"like_pattern": true, "like_escape_free_rhs": true, "json_arrow_rhs": true, "concat_right_paren": true, "interval_paren_free_cmp": true, "any_subquery": true, "all_subquery": true, "in_subquery": true, "not": true, "exists": true, "not_exists": true,
	"case_when_cond": false}

// pureChain reports whether the pattern has no bracketing production: such a text is a
// flat continuation (SELECT 1 UNION ALL SELECT 1 ...), which need not be rejected at any
// length but must not cost unbounded stack.
func (c NestCase) pureChain() bool {
	for _, pi := range c.Pattern {
		if prods[pi].Mode == "" {
			return false
		}
	}
	return true
}

// build renders the chain; it returns "" when the pattern is not kind-consistent.
func (c NestCase) build(depth int) string {
	var pre, post []string
	cur := tops[c.Top].In
	pre = append(pre, tops[c.Top].Pre)
	post = append(post, tops[c.Top].Post)
	levels := 0
	for i := 0; levels < depth; i++ {
		p := prods[c.Pattern[i%len(c.Pattern)]]
		if p.In != cur || i > 4*depth+8 {
			return ""
		}
		if i > 0 {
			if prev := prods[c.Pattern[(i-1)%len(c.Pattern)]]; tightHole[prev.Name] && operandFirst[p.Name] {
				pre = append(pre, "(")
				post = append(post, ")")
			}
		}
		pre = append(pre, p.Pre+c.Sep)
		post = append(post, p.Post)
		cur = p.Out
		notExists := i > 0 && p.Name == "exists" && prods[c.Pattern[(i-1)%len(c.Pattern)]].Name == "not" // NOT EXISTS (...) is one construct, one level
		if (p.Mode == "" || (p.Mode == "chain" && c.pureChain())) && !notExists {
			levels++
		}
	}
	var b strings.Builder
	for _, s := range pre {
		b.WriteString(s)
	}
	b.WriteString(terminal(cur))
	for i := len(post) - 1; i >= 0; i-- {
		b.WriteString(post[i])
	}
	return b.String()
}

const limit = parser.MaxRecursionDepth

// stackCap bounds goroutine stacks while tokenizing and parsing: about 30x what the
// deepest accepted nesting needs (measured and reported in the evidence notes).
const stackCap = 32 << 20

func code(err error) string {
	var se *goerrors.Error
	if errors.As(err, &se) {
		return string(se.Code)
	}
	return "uncoded"
}

type entry struct {
	name string
	call func(sql string) error
}

var entries = []entry{
	{"gosqlx.Parse", func(s string) error { _, err := gosqlx.Parse(s); return err }},
	{"gosqlx.Validate", func(s string) error { return gosqlx.Validate(s) }},
	{"parser.ValidateBytes", func(s string) error { return parser.ValidateBytes([]byte(s)) }},
	{"gosqlx.ParseWithContext", func(s string) error { _, err := gosqlx.ParseWithContext(context.Background(), s); return err }},
	{"parser.ParseWithDialect(mysql)", func(s string) error { _, err := parser.ParseWithDialect(s, keywords.DialectMySQL); return err }},
}

// Entry points that also consume the tree (serialisers recurse on tree depth, which a long
// flat chain makes proportional to input length) or that restart at every statement keyword
// (recovery: one deep failure per SELECT) run only on depths up to 1000, outside the stack cap.
var shallowEntries = []entry{
	{"gosqlx.Format", func(s string) error { _, err := gosqlx.Format(s, gosqlx.FormatOptions{}); return err }},
	{"gosqlx.ParseWithRecovery", func(s string) error {
		_, errs := gosqlx.ParseWithRecovery(s)
		if len(errs) > 0 {
			return errs[0]
		}
		return nil
	}},
}

func oracleNest(c NestCase) error {
	if c.Child && !hx.Leaf() {
		t0 := time.Now()
		err := nestCheck.Contained(c, 5*time.Minute)
		if d := time.Since(t0); d > 20*time.Second {
			fmt.Printf("SLOW %v: %s depth %d\n", d.Round(time.Second), c.names(), c.Depth)
		}
		if err != nil && !strings.Contains(err.Error(), "levels of nesting") {
			return fmt.Errorf("%s at depth %d: %v", c.names(), c.Depth, err)
		}
		return err
	}
	if hx.Leaf() {
		debug.SetMaxStack(stackCap)
	}
	// is the family in the accepted language at all? (depth 2 and depth 12 of the same chain)
	for _, d := range []int{2, 12} {
		if d >= c.Depth {
			continue
		}
		s := c.build(d)
		if s == "" {
			return nil
		}
		if err := entries[0].call(s); err != nil {
			hx.Class("nesting", "family_not_accepted_at_depth_"+fmt.Sprint(d))
			notAccepted[c.names()] = true
			return nil
		}
	}
	s := c.build(c.Depth)
	if s == "" {
		return nil
	}
	es := entries
	if c.Depth <= 1000 {
		es = append(append([]entry{}, entries...), shallowEntries...)
	}
	for _, e := range es {
		err := e.call(s)
		if c.pureChain() {
			hx.Class("nesting", "flat_chain_survived")
		} else if c.Depth > limit {
			if err == nil {
				return fmt.Errorf("%s accepts %d levels of nesting (limit %d): %s\n input (%d bytes) starts: %s", e.name, c.Depth, limit, c.names(), len(s), clip(s))
			}
			hx.Class("nesting", "rejected_with_"+code(err))
		} else if err == nil {
			hx.Class("nesting", "accepted_below_limit")
		} else {
			hx.Class("nesting", "rejected_below_limit_"+code(err))
		}
	}
	return nil
}

var notAccepted = map[string]bool{}

func clip(s string) string {
	if len(s) > 160 {
		return s[:160] + "…"
	}
	return s
}

var (
	nestCheck  *hx.Check[NestCase]
	limitCheck *hx.Check[LimitCase]
)

func init() {
	nestCheck = hx.NewCheck("nesting", oracleNest)
	limitCheck = hx.NewCheck("size_and_token_limits", oracleLimit)
}

func depthClass(d int) string {
	switch {
	case d <= limit:
		return "depth_le_limit"
	case d <= 2*limit:
		return "depth_just_over_limit"
	case d <= 1000:
		return "depth_le_1000"
	case d <= 20000:
		return "depth_le_20000"
	default:
		return "depth_gt_20000"
	}
}

// maxDepthFor is the largest depth whose text stays under the byte and token limits.
func maxDepthFor(c NestCase) int {
	per := 0
	for _, p := range c.Pattern {
		per += len(prods[p].Pre) + len(prods[p].Post) + len(c.Sep)
	}
	per = per/len(c.Pattern) + 1
	d := (tokenizer.MaxInputSize - 1000) / per
	if d > 120000 { // ~ token limit / 8 tokens per level
		d = 120000
	}
	return d
}

func TestNestingTowers(t *testing.T) {
	hx.Rule("nesting", fmt.Sprintf("catalogue of %d self-embedding productions (expression->expression, expression->query, query->expression, query->query) under %d statement contexts; a case is a kind-consistent cycle of productions repeated to depth d, rendered on one line or one level per line; eight entry points (two of them only up to depth 1000); oracle: the same chain at depth 2 and 12 must be accepted (otherwise the family is outside the accepted language: skipped and listed), at d > %d every entry point returns an error, and the child process running d >= 1000 under debug.SetMaxStack(%d MiB) survives; exhaustive part: every production alone x every compatible context x depths {limit-1, limit+1, 1000, 20000, largest that fits the limits}; random part: mixed cycles of length 2-6 and non-repeating sequences; non-trivial = d > limit; distinct = context + cycle + depth class", len(prods), len(tops), limit, stackCap>>20))
	// exhaustive single-production towers
	hx.Exhaustive("nesting", true)
	idx := 0
	thorough := hx.Tier() == "thorough"
	firstTop := map[int]bool{} // productions already exercised under some context (quick: one context each)
	topDone := map[int]bool{}
	for ti, top := range tops {
		for pi, p := range prods {
			if p.In != top.In || p.Mode == "place" && backTo(p.Out, p.In) < 0 {
				continue
			}
			pattern := []int{pi}
			if p.Out != p.In {
				back := backTo(p.Out, p.In)
				if back < 0 {
					continue
				}
				pattern = append(pattern, back)
			}
			full := thorough || !firstTop[pi]
			if !full && topDone[ti] {
				continue
			}
			firstTop[pi] = true
			seps := []string{""}
			if thorough {
				seps = []string{"", "\n"}
			}
			for _, sep := range seps {
				base := NestCase{Top: ti, Pattern: pattern, Sep: sep}
				depths := []int{limit + 1, 1000}
				if full {
					depths = []int{limit - 1, limit + 1, 1000, 20000}
					if thorough || base.pureChain() || p.Name == "not" || p.Name == "derived_table" || p.Name == "paren" {
						depths = append(depths, maxDepthFor(base))
					}
				}
				if p.Mode == "" {
					topDone[ti] = true
				}
				for _, d := range depths {
					idx++
					if idx%hx.Shards() != hx.Shard() {
						continue
					}
					c := base
					c.Depth = d
					c.Child = d > 1000
					hx.Case("nesting", d > limit, c.names()+depthClass(d)+sep, depthClass(d), "top_"+top.Name)
					hx.Sample("nesting", map[string]interface{}{"chain": c.names(), "depth": d, "text": clip(c.build(3))})
					nestCheck.One(t, c)
				}
			}
		}
	}
	var na []string
	for k := range notAccepted {
		na = append(na, k)
	}
	if len(na) > 0 {
		hx.Note("nesting_families_outside_accepted_language_shard"+fmt.Sprint(hx.Shard()), strings.Join(na, "; "))
	}
}

func cycleClosable(p prod) bool { return backTo(p.Out, p.In) >= 0 }

func backTo(from, to kind) int {
	for i, p := range prods {
		if p.In == from && p.Out == to {
			return i
		}
	}
	return -1
}

func TestNestingMixed(t *testing.T) {
	nestCheck.Rapid(t, hx.N(300, 5000), func(rt *rapid.T) NestCase {
		c := NestCase{Top: rapid.IntRange(0, len(tops)-1).Draw(rt, "top")}
		start := tops[c.Top].In
		cur := start
		repeat := rapid.Bool().Draw(rt, "repeat")
		n := rapid.IntRange(2, 6).Draw(rt, "cycle_len")
		if !repeat {
			n = rapid.IntRange(limit+1, 3*limit).Draw(rt, "seq_len")
		}
		for i := 0; i < n || (repeat && cur != start); i++ {
			var cands []int
			for pi, p := range prods {
				if p.In == cur && !(repeat && i >= n && p.Out != start) && !future(p) {
					cands = append(cands, pi)
				}
			}
			if len(cands) == 0 { // closing the cycle needs an intermediate kind
				for pi, p := range prods {
					if p.In == cur && p.Out != cur && !future(p) {
						cands = append(cands, pi)
					}
				}
			}
			pi := cands[rapid.IntRange(0, len(cands)-1).Draw(rt, "prod")]
			c.Pattern = append(c.Pattern, pi)
			cur = prods[pi].Out
		}
		if repeat {
			c.Depth = rapid.SampledFrom([]int{limit + 1, 2 * limit, 1000, 5000}).Draw(rt, "depth")
		} else {
			c.Depth = 0
			for _, pi := range c.Pattern {
				if prods[pi].Mode == "" || prods[pi].Mode == "chain" && c.pureChain() {
					c.Depth++
				}
			}
			if c.Depth == 0 {
				c.Depth = 1
			}
		}
		c.Sep = rapid.SampledFrom([]string{"", "\n", " "}).Draw(rt, "sep")
		c.Child = c.Depth > 1000
		hx.Case("nesting", c.Depth > limit, c.names()+depthClass(c.Depth)+c.Sep, depthClass(c.Depth), "mixed")
		hx.Sample("nesting", map[string]interface{}{"chain": clip(c.names()), "depth": c.Depth})
		return c
	})
}

// ---------------------------------------------------------------- byte and token limits

type LimitCase struct {
	Kind  string `json:"kind"`  // bytes | tokens
	Shape string `json:"shape"` // how the input is laid out
	Delta int    `json:"delta"` // size relative to the limit
	Tail  string `json:"tail"`  // bytes after the last token (token cases)
	Child bool   `json:"child,omitempty"`
}

func (c LimitCase) build() []byte {
	switch c.Kind {
	case "bytes":
		n := tokenizer.MaxInputSize + c.Delta
		switch c.Shape {
		case "one_literal":
			return []byte("SELECT '" + strings.Repeat("x", n-9) + "'")
		case "one_block_comment":
			return []byte("SELECT 1 /*" + strings.Repeat("c", n-13) + "*/")
		case "trailing_blanks":
			return []byte("SELECT 1" + strings.Repeat(" ", n-8))
		case "many_lines":
			line := "SELECT a, b, c FROM t WHERE a = 1;\n"
			b := bytes.Repeat([]byte(line), n/len(line)+1)
			return b[:n]
		case "long_identifier":
			return []byte("SELECT " + strings.Repeat("a", n-7))
		case "all_blanks":
			return bytes.Repeat([]byte(" "), n)
		case "all_blank_lines":
			return bytes.Repeat([]byte(" \n"), n/2+1)[:n]
		case "leading_blanks":
			return []byte(strings.Repeat(" ", n-8) + "SELECT 1")
		case "one_line_comment":
			return []byte("--" + strings.Repeat("c", n-2))
		}
	case "tokens":
		n := tokenizer.MaxTokens + c.Delta // tokens besides EOF
		var sb strings.Builder
		switch c.Shape {
		case "grid": // n tokens, 700 per line
			for i := 0; i < n; i++ {
				if i == 0 {
					sb.WriteString("SELECT")
				} else if i%2 == 1 {
					sb.WriteString(" a")
				} else {
					sb.WriteString(" ,")
				}
				if i%700 == 699 {
					sb.WriteByte('\n')
				}
			}
		case "one_line":
			sb.WriteString("SELECT")
			for i := 1; i < n; i++ {
				if i%2 == 1 {
					sb.WriteString(" 1")
				} else {
					sb.WriteString("+")
				}
			}
		case "statements":
			// "SELECT 1 ;" = 3 tokens
			for i := 0; i+3 <= n; i += 3 {
				sb.WriteString("SELECT 1;\n")
			}
			for i := 0; i < n%3; i++ {
				sb.WriteString(" ;")
			}
		}
		sb.WriteString(c.Tail)
		return []byte(sb.String())
	}
	return nil
}

func oracleLimit(c LimitCase) error {
	if c.Child && !hx.Leaf() {
		return limitCheck.Contained(c, 10*time.Minute)
	}
	in := c.build()
	type tk struct {
		name string
		call func() (int, error)
	}
	calls := []tk{
		{"Tokenizer.Tokenize", func() (int, error) {
			z := tokenizer.GetTokenizer()
			defer tokenizer.PutTokenizer(z)
			t, err := z.Tokenize(in)
			return len(t), err
		}},
		{"Tokenizer.TokenizeContext", func() (int, error) {
			z := tokenizer.GetTokenizer()
			defer tokenizer.PutTokenizer(z)
			t, err := z.TokenizeContext(context.Background(), in)
			return len(t), err
		}},
		{"gosqlx.ParseBytes", func() (int, error) { _, err := gosqlx.ParseBytes(in); return -1, err }},
		{"parser.ValidateBytes", func() (int, error) { return -1, parser.ValidateBytes(in) }},
		{"parser.Validate", func() (int, error) { return -1, parser.Validate(string(in)) }},
		{"parser.ValidateBytesWithDialect", func() (int, error) { return -1, parser.ValidateBytesWithDialect(in, keywords.DialectMySQL) }},
		{"parser.ParseBytes", func() (int, error) { _, err := parser.ParseBytes(in); return -1, err }},
		{"parser.ParseBytesWithDialect", func() (int, error) {
			_, err := parser.ParseBytesWithDialect(in, keywords.DialectPostgreSQL)
			return -1, err
		}},
		{"gosqlx.Validate", func() (int, error) { return -1, gosqlx.Validate(string(in)) }},
		{"gosqlx.Format", func() (int, error) {
			_, err := gosqlx.Format(string(in), gosqlx.DefaultFormatOptions())
			return -1, err
		}},
		{"formatter.Format", func() (int, error) {
			_, err := formatter.New(formatter.Options{}).Format(string(in))
			return -1, err
		}},
		{"gosqlx.ParseWithRecovery", func() (int, error) {
			_, errs := gosqlx.ParseWithRecovery(string(in))
			if len(errs) > 0 {
				return -1, errs[0]
			}
			return -1, nil
		}},
	}
	want := ""
	switch {
	case c.Kind == "bytes" && c.Delta > 0:
		want = string(goerrors.ErrCodeInputTooLarge)
	case c.Kind == "tokens" && c.Delta > 0:
		want = string(goerrors.ErrCodeTokenLimitReached)
	}
	forbidden := map[string]string{"bytes": string(goerrors.ErrCodeInputTooLarge), "tokens": string(goerrors.ErrCodeTokenLimitReached)}[c.Kind]
	for _, e := range calls {
		n, err := e.call()
		got := ""
		if err != nil {
			got = code(err)
		}
		desc := fmt.Sprintf("%s on %s input, shape %s, %d bytes (limit%+d, tail %q)", e.name, c.Kind, c.Shape, len(in), c.Delta, c.Tail)
		if want != "" {
			if got != want {
				return fmt.Errorf("%s: want error %s, got %q (%v)", desc, want, got, short(err))
			}
			continue
		}
		if got == forbidden {
			return fmt.Errorf("%s: rejected with the limit error %s although the input does not exceed the limit: %v", desc, got, short(err))
		}
		if c.Kind == "tokens" && err == nil && n >= 0 && n != tokenizer.MaxTokens+c.Delta+1 {
			return fmt.Errorf("HARNESS: %s produced %d tokens, the case was built for %d", desc, n, tokenizer.MaxTokens+c.Delta+1)
		}
	}
	return nil
}

func short(err error) string {
	if err == nil {
		return "nil"
	}
	s := err.Error()
	if i := strings.IndexByte(s, '\n'); i > 0 {
		s = s[:i]
	}
	if len(s) > 200 {
		s = s[:200]
	}
	return s
}

func TestSizeAndTokenLimits(t *testing.T) {
	hx.Rule("size_and_token_limits", "inputs of exactly MaxInputSize-1, MaxInputSize, MaxInputSize+1 (and +/- 4096) bytes in nine shapes (incl. nothing but blanks or blank lines, blanks before the statement, one comment), and of exactly MaxTokens-1, MaxTokens, MaxTokens+1 tokens in three layouts x trailing bytes after the last token (none, newline, blanks, line comment, block comment), through 13 entry points (Tokenize, TokenizeContext, the parser.Validate* and Parse* wrappers, gosqlx.ParseBytes / Validate / Format / ParseWithRecovery, formatter.Format); oracle: E1006 / E1007 exactly when the length / token count exceeds the limit, never at or below it (any other outcome is allowed there); enumerated exhaustively; non-trivial = within +/-1 of a limit")
	hx.Exhaustive("size_and_token_limits", true)
	var cases []LimitCase
	for _, sh := range []string{"one_literal", "one_block_comment", "trailing_blanks", "many_lines", "long_identifier", "all_blanks", "all_blank_lines", "leading_blanks", "one_line_comment"} {
		for _, d := range []int{-4096, -1, 0, 1, 4096} {
			cases = append(cases, LimitCase{Kind: "bytes", Shape: sh, Delta: d})
		}
	}
	for _, sh := range []string{"grid", "one_line", "statements"} {
		for _, d := range []int{-1, 0, 1} {
			for _, tail := range []string{"", "\n", "   ", " -- c", " /* c */", "\n-- c\n"} {
				cases = append(cases, LimitCase{Kind: "tokens", Shape: sh, Delta: d, Tail: tail})
			}
		}
	}
	for i, c := range cases {
		if i%hx.Shards() != hx.Shard() {
			continue
		}
		if hx.Tier() == "quick" && (c.Kind == "bytes" && (c.Delta == -4096 || c.Delta == 4096) || c.Kind == "tokens" && c.Shape != "grid" && c.Tail != "" && c.Tail != "\n") {
			continue
		}
		c.Child = true
		hx.Case("size_and_token_limits", c.Delta >= -1 && c.Delta <= 1, fmt.Sprint(c), "limit_"+c.Kind)
		hx.Sample("size_and_token_limits", c)
		limitCheck.One(t, c)
	}
}

// ---------------------------------------------------------------- the limit over a history

// HistCase is a sequence of expression towers offered to ONE parser (reused across calls,
// taken from the pool, or as one script in recovery mode).
type HistCase struct {
	Items []HistItem `json:"items"`
	Mode  string     `json:"mode"` // reuse | pool | recovery
}

type HistItem struct {
	Prod  int `json:"prod"` // index into exprTowers
	Depth int `json:"depth"`
}

// towers whose text contains no statement keyword or semicolon besides the leading SELECT,
// so that recovery resumes at the next statement and nowhere inside a failed one
var exprTowers = [][2]string{{"(", ")"}, {"f(", ")"}, {"NOT ", ""}, {"- ", ""}, {"CASE WHEN ", " THEN 1 END"}, {"x IN (", ")"},
	{"CAST(", " AS int)"}, {"ARRAY[", "]"}, {"COALESCE(1, ", ")"}, {"1 + (", ")"}}

func (it HistItem) sql() string {
	t := exprTowers[it.Prod]
	return "SELECT " + strings.Repeat(t[0], it.Depth) + "1" + strings.Repeat(t[1], it.Depth)
}

func oracleHist(c HistCase) error {
	fresh := make([]bool, len(c.Items)) // accepted by a fresh parser?
	for i, it := range c.Items {
		fresh[i] = parser.ValidateBytes([]byte(it.sql())) == nil
		if it.Depth > limit && fresh[i] {
			return fmt.Errorf("a fresh parser accepts %d levels of %q", it.Depth, exprTowers[it.Prod][0])
		}
	}
	describe := func(i int) string {
		var h []string
		for _, it := range c.Items[:i+1] {
			h = append(h, fmt.Sprintf("%s x%d", strings.TrimSpace(exprTowers[it.Prod][0]), it.Depth))
		}
		return strings.Join(h, "; ")
	}
	switch c.Mode {
	case "recovery":
		var parts []string
		want := 0
		for i, it := range c.Items {
			parts = append(parts, it.sql())
			if fresh[i] {
				want++
			}
		}
		stmts, errs := gosqlx.ParseWithRecovery(strings.Join(parts, ";\n"))
		if len(stmts) != want || len(errs) != len(c.Items)-want {
			return fmt.Errorf("recovery parse of the script [%s] returns %d statements and %d errors; parsed one by one, %d statements are accepted and %d rejected", describe(len(c.Items)-1), len(stmts), len(errs), want, len(c.Items)-want)
		}
	default:
		var p *parser.Parser
		if c.Mode == "pool" {
			p = parser.GetParser()
			defer parser.PutParser(p)
		} else {
			p = parser.NewParser()
			defer p.Release()
		}
		for i, it := range c.Items {
			z := tokenizer.GetTokenizer()
			toks, err := z.Tokenize([]byte(it.sql()))
			tokenizer.PutTokenizer(z)
			if err != nil {
				return fmt.Errorf("HARNESS: %v", err)
			}
			_, perr := p.ParseFromModelTokens(toks)
			if (perr == nil) != fresh[i] {
				return fmt.Errorf("after the history [%s] on one %s parser, the last statement is %s, while a fresh parser %s it (err: %v)", describe(i), c.Mode,
					map[bool]string{true: "accepted", false: "rejected"}[perr == nil], map[bool]string{true: "accepts", false: "rejects"}[fresh[i]], short(perr))
			}
		}
	}
	return nil
}

var histCheck = hx.NewCheck("limit_over_history", oracleHist)

func TestLimitOverHistory(t *testing.T) {
	hx.Rule("limit_over_history", "stateful: 2-40 expression towers (10 productions; depths 2-60, 95-140, 300) offered to ONE parser - reused across calls, taken from the pool, or as one recovery-mode script; oracle: every verdict equals the verdict of a fresh parser on that statement alone (so a statement over the limit is still rejected after any number of earlier rejections), and a recovery script returns exactly as many statements/errors as are accepted/rejected one by one; non-trivial = an over-limit statement follows at least one earlier rejection; distinct = mode + sequence")
	histCheck.Rapid(t, hx.N(400, 8000), func(rt *rapid.T) HistCase {
		c := HistCase{Mode: rapid.SampledFrom([]string{"reuse", "pool", "recovery"}).Draw(rt, "mode")}
		n := rapid.IntRange(2, 40).Draw(rt, "n")
		rejections, nontrivial := 0, false
		for i := 0; i < n; i++ {
			it := HistItem{Prod: rapid.IntRange(0, len(exprTowers)-1).Draw(rt, "prod")}
			switch rapid.IntRange(0, 3).Draw(rt, "depth_class") {
			case 0:
				it.Depth = rapid.IntRange(2, 60).Draw(rt, "shallow")
			case 1, 2:
				it.Depth = rapid.IntRange(95, 140).Draw(rt, "around_limit")
			default:
				it.Depth = 300
			}
			if it.Depth > limit {
				if rejections > 0 {
					nontrivial = true
				}
				rejections++
			}
			c.Items = append(c.Items, it)
		}
		hx.Case("limit_over_history", nontrivial, fmt.Sprint(c), "mode_"+c.Mode)
		hx.Sample("limit_over_history", map[string]interface{}{"mode": c.Mode, "items": len(c.Items), "rejections": rejections})
		return c
	})
}
