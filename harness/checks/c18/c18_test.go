package c18

import (
	"encoding/json"
	"errors"
	"fmt"
	"github.com/ajitpratap0/GoSQLX/pkg/lsp"
	"strings"
	"testing"

	"github.com/ajitpratap0/GoSQLX/pkg/gosqlx"
	"github.com/ajitpratap0/GoSQLX/pkg/sql/parser"
	"github.com/ajitpratap0/GoSQLX/pkg/sql/tokenizer"
	"pgregory.net/rapid"
	"verif/internal/hx"
	"verif/internal/lspx"
)

// the whole run happens in a child: a message that kills the process (a fatal runtime error is not a
// panic) is re-run alone and reported as the violation it is
func TestMain(m *testing.M) { hx.MainContained(m, "C18") }

// Msg is one client->server message of a history.
type Msg struct {
	Kind    string `json:"kind"`
	URI     string `json:"uri,omitempty"`
	Version int    `json:"version,omitempty"`
	Text    string `json:"text,omitempty"`
	SL      int    `json:"sl,omitempty"`
	SC      int    `json:"sc,omitempty"`
	EL      int    `json:"el,omitempty"`
	EC      int    `json:"ec,omitempty"`
	Method  string `json:"method,omitempty"`
	Raw     string `json:"raw,omitempty"` // bytes sent verbatim (bad headers, malformed JSON)
	ID      int    `json:"id,omitempty"`
	// TabSize, when non-zero, replaces EL as the tabSize of a formatting request (absurd values)
	TabSize int64 `json:"tab_size,omitempty"`
	// a second change in the same didChange notification (batch)
	Batch *Msg `json:"batch,omitempty"`
}

type History struct {
	Msgs []Msg `json:"msgs"`
}

type docModel struct {
	text    string
	version int
	known   bool // false after an edit the protocol does not define
}

func q(s string) string { b, _ := json.Marshal(s); return string(b) }

func changeJSON(m Msg) string {
	if m.Kind == "change_full" || m.Kind == "full" {
		return fmt.Sprintf(`{"text":%s}`, q(m.Text))
	}
	return fmt.Sprintf(`{"range":{"start":{"line":%d,"character":%d},"end":{"line":%d,"character":%d}},"text":%s}`, m.SL, m.SC, m.EL, m.EC, q(m.Text))
}

// wire returns the bytes to send and, for requests, the id expected back.
func wire(m Msg) (raw string, framed bool, reqID string) {
	id := fmt.Sprintf("r%d", m.ID)
	switch m.Kind {
	case "initialize":
		return fmt.Sprintf(`{"jsonrpc":"2.0","id":%q,"method":"initialize","params":{"processId":1,"rootUri":null,"capabilities":{}}}`, id), true, id
	case "initialized":
		return `{"jsonrpc":"2.0","method":"initialized","params":{}}`, true, ""
	case "open":
		return fmt.Sprintf(`{"jsonrpc":"2.0","method":"textDocument/didOpen","params":{"textDocument":{"uri":%q,"languageId":"sql","version":%d,"text":%s}}}`, m.URI, m.Version, q(m.Text)), true, ""
	case "change_full", "change_inc":
		ch := changeJSON(m)
		if m.Batch != nil {
			b := *m.Batch
			if b.Kind == "full" {
				b.Kind = "change_full"
			}
			ch += "," + changeJSON(b)
		}
		return fmt.Sprintf(`{"jsonrpc":"2.0","method":"textDocument/didChange","params":{"textDocument":{"uri":%q,"version":%d},"contentChanges":[%s]}}`, m.URI, m.Version, ch), true, ""
	case "close":
		return fmt.Sprintf(`{"jsonrpc":"2.0","method":"textDocument/didClose","params":{"textDocument":{"uri":%q}}}`, m.URI), true, ""
	case "save":
		return fmt.Sprintf(`{"jsonrpc":"2.0","method":"textDocument/didSave","params":{"textDocument":{"uri":%q}}}`, m.URI), true, ""
	case "request":
		opts := ""
		if m.Method == "textDocument/formatting" {
			opts = fmt.Sprintf(`,"options":{"tabSize":%d,"insertSpaces":%v}`, m.EL, m.EC%2 == 0)
			if m.TabSize != 0 {
				opts = fmt.Sprintf(`,"options":{"tabSize":%d,"insertSpaces":true}`, m.TabSize)
			}
		}
		return fmt.Sprintf(`{"jsonrpc":"2.0","id":%q,"method":%q,"params":{"textDocument":{"uri":%q},"position":{"line":%d,"character":%d},"range":{"start":{"line":%d,"character":%d},"end":{"line":%d,"character":%d}},"context":{"diagnostics":[]}%s}}`,
			id, m.Method, m.URI, m.SL, m.SC, m.SL, m.SC, m.EL, m.EC, opts), true, id
	case "request_noparams":
		return fmt.Sprintf(`{"jsonrpc":"2.0","id":%q,"method":%q}`, id, m.Method), true, id
	case "request_numeric_id":
		return fmt.Sprintf(`{"jsonrpc":"2.0","id":%d,"method":%q,"params":{}}`, 100000+m.ID, m.Method), true, fmt.Sprint(100000 + m.ID)
	case "unknown_notification":
		return fmt.Sprintf(`{"jsonrpc":"2.0","method":%q,"params":{"x":1}}`, m.Method), true, ""
	case "typed_wrong": // valid JSON, wrong field types, with an id
		return fmt.Sprintf(`{"jsonrpc":2.0,"id":%q,"method":%q,"params":[]}`, id, m.Method), true, id
	case "client_response":
		// a response object (to a request the server never sent): nothing is to be sent back
		return fmt.Sprintf(`{"jsonrpc":"2.0","id":"resp%d",%s}`, m.ID, m.Raw), true, ""
	case "malformed_json":
		return m.Raw, true, ""
	case "bad_header":
		return m.Raw, false, ""
	case "request_lowercase_header":
		// header field names are case-insensitive (the base protocol follows HTTP): a request all the same
		body := fmt.Sprintf(`{"jsonrpc":"2.0","id":%q,"method":%q}`, id, m.Method)
		return fmt.Sprintf("content-length: %d\r\n\r\n%s", len(body), body), false, id
	case "oversized_frame":
		// a complete frame whose declared (and actual) length is one byte over the limit: its content is not a
		// message, but the frames after it are
		n := lsp.MaxContentLength + 1
		return fmt.Sprintf("Content-Length: %d\r\n\r\n%s", n, strings.Repeat("x", n)), false, ""
	}
	return "", true, ""
}

func run(h History) error {
	c := lspx.Start()
	defer c.Close()
	docs := map[string]*docModel{}
	expectResp := map[string]int{} // id -> responses expected (1)
	syncN := 0
	for step, m := range h.Msgs {
		raw, framed, reqID := wire(m)
		var err error
		if framed {
			err = c.Send(raw)
		} else {
			err = c.SendRaw([]byte(raw))
		}
		if err != nil {
			_, died, _ := c.Snapshot()
			return fmt.Errorf("step %d (%s): cannot send: %v (server: %s)", step, m.Kind, err, died)
		}
		if reqID != "" {
			expectResp[reqID]++
		}
		// model
		switch m.Kind {
		case "open":
			docs[m.URI] = &docModel{text: m.Text, version: m.Version, known: true}
		case "change_full", "change_inc":
			if d, ok := docs[m.URI]; ok {
				d.version = m.Version
				apply := func(x Msg) {
					if x.Kind == "change_full" || x.Kind == "full" {
						d.text, d.known = x.Text, true
						return
					}
					if !d.known {
						return
					}
					t, ok := lspx.Apply(d.text, x.SL, x.SC, x.EL, x.EC, x.Text)
					if !ok {
						d.known = false // outside the protocol: only survival is required
						return
					}
					d.text = t
				}
				apply(m)
				if m.Batch != nil {
					apply(*m.Batch)
				}
			}
		case "close":
			delete(docs, m.URI)
		}
		// barrier: the server is sequential, so the answer to a sentinel request means everything before it was handled
		syncN++
		sid := fmt.Sprintf("sync%d", syncN)
		if err := c.Sync(sid); err != nil {
			return fmt.Errorf("step %d (%s): after this message the server no longer answers: %v", step, describe(m), err)
		}
		expectResp[sid] = 1
		frames, died, ferr := c.Snapshot()
		if died != "" {
			return fmt.Errorf("step %d (%s): the server stopped: %s", step, describe(m), died)
		}
		if ferr != nil {
			return fmt.Errorf("step %d (%s): outgoing framing broken: %v", step, describe(m), ferr)
		}
		// exactly one response per request id, none for anything else
		got := map[string]int{}
		for _, f := range frames {
			if f.HasID && f.Method == "" {
				got[fmt.Sprint(f.ID)]++
			}
		}
		for id, n := range expectResp {
			if got[id] != n {
				return fmt.Errorf("step %d (%s): request id %s has %d responses, want %d", step, describe(m), id, got[id], n)
			}
		}
		for id, n := range got {
			if expectResp[id] == 0 {
				return fmt.Errorf("step %d (%s): %d response(s) carry id %s, which no request used", step, describe(m), n, id)
			}
		}
		// mirror
		for uri, d := range docs {
			if !d.known {
				continue
			}
			content, ok := c.Server.Documents().GetContent(uri)
			if !ok {
				return fmt.Errorf("step %d (%s): document %s is open but the server does not have it", step, describe(m), uri)
			}
			if content != d.text {
				return fmt.Errorf("step %d (%s): the server's copy of %s is %q, applying the edits under the protocol's rules gives %q", step, describe(m), uri, content, d.text)
			}
		}
		// diagnostics of the last publish for each known open document
		for uri, d := range docs {
			if !d.known {
				continue
			}
			var last *lspx.Frame
			for i := range frames {
				if frames[i].Method == "textDocument/publishDiagnostics" {
					var p struct {
						URI         string `json:"uri"`
						Version     int    `json:"version"`
						Diagnostics []struct {
							Range struct {
								Start struct{ Line, Character int } `json:"start"`
							} `json:"range"`
						} `json:"diagnostics"`
					}
					if json.Unmarshal(frames[i].Params, &p) == nil && p.URI == uri {
						last = &frames[i]
					}
				}
			}
			if last == nil {
				continue
			}
			if err := checkDiagnostics(uri, d, last); err != nil {
				return fmt.Errorf("step %d (%s): %v", step, describe(m), err)
			}
		}
	}
	return nil
}

func describe(m Msg) string {
	switch m.Kind {
	case "change_inc":
		return fmt.Sprintf("didChange %d:%d-%d:%d %q", m.SL, m.SC, m.EL, m.EC, m.Text)
	case "request":
		return fmt.Sprintf("%s at %d:%d", m.Method, m.SL, m.SC)
	case "bad_header", "malformed_json":
		return fmt.Sprintf("%s %q", m.Kind, m.Raw)
	}
	return m.Kind
}

func checkDiagnostics(uri string, d *docModel, f *lspx.Frame) error {
	var p struct {
		Version     int `json:"version"`
		Diagnostics []struct {
			Range struct {
				Start struct {
					Line      int `json:"line"`
					Character int `json:"character"`
				} `json:"start"`
			} `json:"range"`
		} `json:"diagnostics"`
	}
	if err := json.Unmarshal(f.Params, &p); err != nil {
		return fmt.Errorf("publishDiagnostics params do not parse: %v", err)
	}
	if p.Version != d.version {
		return fmt.Errorf("last diagnostics for %s are for version %d, the document is at version %d", uri, p.Version, d.version)
	}
	_, errs := gosqlx.ParseWithRecovery(d.text)
	if len(p.Diagnostics) != len(errs) {
		return fmt.Errorf("document %s (%q) has %d recovery-parse errors but %d diagnostics were published", uri, clip(d.text), len(errs), len(p.Diagnostics))
	}
	// each diagnostic sits on a line of the statement that caused it
	tkz, _ := tokenizer.New()
	toks, terr := tkz.Tokenize([]byte(d.text))
	if terr != nil {
		return nil
	}
	nLines := strings.Count(d.text, "\n") + 1
	for i, e := range errs {
		line := p.Diagnostics[i].Range.Start.Line
		if line < 0 || line >= nLines {
			return fmt.Errorf("diagnostic %d is on line %d of a %d-line document", i, line, nLines)
		}
		var pe *parser.ParseError
		if !errors.As(e, &pe) || pe.Line < 1 {
			continue
		}
		// lines spanned by the rest of the statement: from the token the error names (found by
		// its source position - TokenIdx counts parser tokens, in which compound keywords such
		// as GROUP BY are two) to the next semicolon
		first := -1
		for j := range toks {
			if toks[j].Start.Line > pe.Line || (toks[j].Start.Line == pe.Line && toks[j].Start.Column >= pe.Column) {
				first = j
				break
			}
		}
		if first < 0 {
			continue
		}
		lo := toks[first].Start.Line - 1
		hi := lo
		for j := first; j < len(toks); j++ {
			if toks[j].Start.Line-1 > hi {
				hi = toks[j].Start.Line - 1
			}
			if toks[j].Token.Value == ";" {
				break
			}
		}
		if line < lo || line > hi {
			return fmt.Errorf("diagnostic %d (%s) is anchored on line %d, its statement spans lines %d-%d of %q", i, firstLine(pe.Msg), line, lo, hi, clip(d.text))
		}
	}
	return nil
}

func firstLine(s string) string {
	if i := strings.IndexByte(s, '\n'); i >= 0 {
		s = s[:i]
	}
	return s
}

func clip(s string) string {
	if len(s) > 160 {
		return s[:160] + "…"
	}
	return s
}

var histCheck = hx.NewCheck("lsp_history", run)

// ---------------------------------------------------------------- generation

var docTexts = []string{
	"SELECT a FROM t1",
	"SELECT a,\n  b\nFROM t1\nWHERE c = 1",
	"SELECT 'é𝄞' , b FROM t2\nWHERE x = 'ü'",
	"SELECT a FROM t1 WHERE\n",
	"SELECT a FROM t1;\n\nDELETE FROM t2 WHERE ;\nSELECT 2",
	"",
	"𝄞𝄞\n𝄞",
	"UPDATE t1 SET a = 1\nWHERE b IN (1,\n 2)\n",
	// characters JSON encoders like to escape (<, >, &) in texts that are formatted, diagnosed and hovered
	"select a from t1 where a < 1 and b > 2 and c <> 'x & y'",
	"SELECT a & b FROM t1 WHERE c <= 'unterminated <&>",
	"SELECT CASE WHEN a >= 1 THEN '<' ELSE '&' END FROM t1 GROUP BY a HAVING count(*) > 1",
	// CRLF line endings: the line ending is not part of the line
	"SELECT a,\r\n  b\r\nFROM t1\r\nWHERE c = 1",
	"ab\r\ncd",
	"SELECT 'é𝄞'\r\nFROM t2 WHERE\r\n",
}

var uris = []string{"file:///a.sql", "file:///b.sql", "untitled:1"}
var methods = []string{"textDocument/hover", "textDocument/completion", "textDocument/formatting", "textDocument/documentSymbol", "textDocument/signatureHelp", "textDocument/codeAction"}

func genMsg(rt *rapid.T, id int, open map[string]string, feat map[string]bool) Msg {
	uri := rapid.SampledFrom(uris).Draw(rt, "uri")
	pos := func(label string) int { return rapid.IntRange(-1, 6).Draw(rt, label) }
	switch rapid.IntRange(0, 19).Draw(rt, "kind") {
	case 0, 1:
		return Msg{Kind: "open", URI: uri, Version: rapid.IntRange(1, 5).Draw(rt, "ver"), Text: rapid.SampledFrom(docTexts).Draw(rt, "text")}
	case 2:
		return Msg{Kind: "change_full", URI: uri, Version: rapid.IntRange(2, 50).Draw(rt, "ver"), Text: rapid.SampledFrom(docTexts).Draw(rt, "text")}
	case 3, 4, 5, 6, 7:
		m := Msg{Kind: "change_inc", URI: uri, Version: rapid.IntRange(2, 50).Draw(rt, "ver"), Text: rapid.SampledFrom([]string{"", "x", "é", "𝄞", "\n", "a\nb", " WHERE 1 ", " < 1 & 2 > 3 ", "\r\n", "x\r\ny"}).Draw(rt, "ins")}
		switch rapid.IntRange(0, 5).Draw(rt, "rangekind") {
		case 0, 1, 2: // in range, ordered
			m.SL, m.SC = rapid.IntRange(0, 3).Draw(rt, "sl"), rapid.IntRange(0, 8).Draw(rt, "sc")
			m.EL, m.EC = m.SL+rapid.IntRange(0, 1).Draw(rt, "dl"), rapid.IntRange(0, 12).Draw(rt, "ec")
			if m.EL == m.SL && m.EC < m.SC {
				m.EC = m.SC
			}
			feat["edit_valid"] = true
		case 3: // past the end of line / document
			m.SL, m.SC, m.EL, m.EC = rapid.IntRange(0, 9).Draw(rt, "sl"), rapid.IntRange(0, 40).Draw(rt, "sc"), 0, 0
			m.EL, m.EC = m.SL+rapid.IntRange(0, 3).Draw(rt, "dl"), m.SC+rapid.IntRange(0, 40).Draw(rt, "dc")
			feat["edit_past_end"] = true
		case 4: // inverted
			m.SL, m.SC, m.EL, m.EC = 1, 3, 0, 1
			feat["edit_inverted"] = true
		default: // negative
			m.SL, m.SC, m.EL, m.EC = pos("sl"), pos("sc"), pos("el"), pos("ec")
			if m.SL >= 0 && m.SC >= 0 && m.EL >= 0 && m.EC >= 0 {
				m.SC = -1
			}
			feat["edit_negative"] = true
		}
		if rapid.IntRange(0, 5).Draw(rt, "batch") == 0 {
			b := Msg{Kind: "inc", SL: 0, SC: rapid.IntRange(0, 3).Draw(rt, "bsc"), EL: 0, Text: "Z"}
			b.EC = b.SC
			if rapid.Bool().Draw(rt, "batchfullfirst") {
				m.Batch = &b
				m.Kind, m.Text = "change_full", rapid.SampledFrom(docTexts).Draw(rt, "btext")
			} else {
				m.Batch = &b
			}
			feat["batched_changes"] = true
		}
		return m
	case 8:
		return Msg{Kind: "close", URI: uri}
	case 9:
		return Msg{Kind: "save", URI: uri}
	case 10, 11, 12:
		m := Msg{Kind: "request", ID: id, URI: uri, Method: rapid.SampledFrom(methods).Draw(rt, "method"), SL: pos("l"), SC: rapid.IntRange(-1, 30).Draw(rt, "c"), EL: rapid.IntRange(-2, 8).Draw(rt, "el"), EC: rapid.IntRange(0, 9).Draw(rt, "ec")}
		if m.Method == "textDocument/formatting" && rapid.IntRange(0, 3).Draw(rt, "absurd_tab") == 0 {
			// a number only a broken or hostile client sends: the request is answered (result or error) and the server lives on
			m.TabSize = rapid.SampledFrom([]int64{1 << 40, 1 << 31, 100000, -1 << 40}).Draw(rt, "tab_size")
			feat["absurd_tab_size"] = true
		}
		return m
	case 13:
		return Msg{Kind: "request_noparams", ID: id, Method: rapid.SampledFrom(append(methods, "initialize", "workspace/unknown")).Draw(rt, "method")}
	case 14:
		return Msg{Kind: "request_numeric_id", ID: id, Method: rapid.SampledFrom([]string{"no/such/method", "textDocument/hover"}).Draw(rt, "method")}
	case 15:
		return Msg{Kind: "unknown_notification", Method: rapid.SampledFrom([]string{"$/cancelRequest", "workspace/didChangeConfiguration", "x"}).Draw(rt, "method")}
	case 16:
		feat["typed_wrong"] = true
		return Msg{Kind: "typed_wrong", ID: id, Method: rapid.SampledFrom(methods).Draw(rt, "method")}
	case 17:
		if rapid.IntRange(0, 2).Draw(rt, "client_response") == 0 {
			feat["client_response"] = true
			return Msg{Kind: "client_response", ID: id, Raw: rapid.SampledFrom([]string{`"result":null`, `"result":{"applied":true}`, `"error":{"code":-32601,"message":"no"}`}).Draw(rt, "resp")}
		}
		feat["malformed_json"] = true
		return Msg{Kind: "malformed_json", Raw: rapid.SampledFrom([]string{`{"jsonrpc":"2.0","method":`, `[1,2`, `nonsense`, `{"id":}`, `{}`, `[]`, `"str"`, `{"jsonrpc":"2.0","method":5}`}).Draw(rt, "raw")}
	case 18:
		feat["bad_header"] = true
		if k := rapid.IntRange(0, 5).Draw(rt, "framekind"); k == 0 {
			feat["lowercase_header"] = true
			return Msg{Kind: "request_lowercase_header", ID: id, Method: rapid.SampledFrom([]string{"shutdown", "no/such/method"}).Draw(rt, "method")}
		} else if k == 1 {
			feat["oversized_frame"] = true
			return Msg{Kind: "oversized_frame"}
		}
		return Msg{Kind: "bad_header", Raw: rapid.SampledFrom([]string{"Content-Length: abc\r\n\r\n", "Content-Length: 0\r\n\r\n", "X-Other: 1\r\n\r\n", "Content-Length: -5\r\n\r\n", "\r\n", "Content-Type: x\r\nContent-Length: 2\r\n\r\n{}"}).Draw(rt, "hdr")}
	default:
		return Msg{Kind: "initialized"}
	}
}

func TestLSPHistory(t *testing.T) {
	hx.Rule("lsp_history", "message histories (<= 30 messages, inside the rate limiter's window) against a real lsp.Server on in-memory pipes: initialize, didOpen/didChange (full, incremental with in-range, past-the-end, inverted and negative ranges, batched changes)/didClose/didSave over ASCII and non-ASCII (BMP and astral) text, every request kind at arbitrary positions, unknown methods, requests without params, wrongly typed envelopes, malformed JSON, bad headers; after every message (barrier = a sentinel request): server alive, output frames well-formed with exact Content-Length, exactly one response per request id and none otherwise, server copy of each document == UTF-16 reference model, last diagnostics match the recovery parse of the model text in version, number and line; non-trivial = history has an incremental edit on a non-ASCII document or a past-the-end/invalid edit or malformed input; distinct = message kinds")
	histCheck.Rapid(t, hx.N(2400, 40000), genLSPHistory)
}

// ---------------------------------------------------------------- exhaustive edit ranges on small documents

func TestEditRangesExhaustive(t *testing.T) {
	if hx.Shard() != 0 {
		t.Skip("enumeration runs on shard 0 only")
	}
	hx.Rule("edit_ranges", "every (startLine, startChar, endLine, endChar) in [-1, L+1] x [-1, C+2] over four small documents containing an astral character (one with CRLF line endings), as one incremental didChange on a freshly opened document; same invariants as lsp_history; exhaustive")
	docs := []string{"a𝄞b\ncd", "é\n\nxy𝄞", "SELECT 1", "a𝄞\r\nb\r\n"}
	n := 0
	for di, doc := range docs {
		lines := strings.Split(doc, "\n")
		L := len(lines)
		C := 0
		for _, l := range lines {
			if u := lspx.UTF16Len(l); u > C {
				C = u
			}
		}
		for sl := -1; sl <= L+1; sl++ {
			for sc := -1; sc <= C+2; sc++ {
				for el := -1; el <= L+1; el++ {
					for ec := -1; ec <= C+2; ec++ {
						if !hx.Allowed("c18.edit_ranges") {
							continue
						}
						// positions inside a surrogate pair are not defined by the protocol: survival only
						h := History{Msgs: []Msg{
							{Kind: "open", URI: "file:///x.sql", Version: 1, Text: doc},
							{Kind: "change_inc", URI: "file:///x.sql", Version: 2, SL: sl, SC: sc, EL: el, EC: ec, Text: "Z"},
						}}
						if splitsSurrogate(doc, sl, sc) || splitsSurrogate(doc, el, ec) {
							h.Msgs[1].Kind = "change_inc"
							h.Msgs = append(h.Msgs[:1], Msg{Kind: "change_inc", URI: "file:///x.sql", Version: 2, SL: sl, SC: sc, EL: el, EC: ec, Text: "Z"}, Msg{Kind: "change_full", URI: "file:///x.sql", Version: 3, Text: doc})
							// mark the model unknown for the split edit by making it look invalid: handled in run via Apply (clamps), so skip mirror by re-syncing with a full change
						}
						n++
						hx.Case("edit_ranges", true, fmt.Sprint(di, sl, sc, el, ec))
						if n%97 == 0 {
							hx.Sample("edit_ranges", h.Msgs[1])
						}
						if !histCheck.One(t, h) {
							return
						}
					}
				}
			}
		}
	}
	hx.Exhaustive("edit_ranges", true)
	t.Logf("%d ranges", n)
}

func splitsSurrogate(doc string, line, char int) bool {
	lines := strings.Split(doc, "\n")
	if line < 0 || line >= len(lines) || char <= 0 {
		return false
	}
	u := 0
	for _, r := range lines[line] {
		w := 1
		if r >= 0x10000 {
			w = 2
		}
		if char > u && char < u+w {
			return true
		}
		u += w
	}
	return false
}

// genLSPHistory is the case generator of histCheck (shared by the rapid run and the native fuzz target).
func genLSPHistory(rt *rapid.T) History {
	n := rapid.IntRange(1, 30).Draw(rt, "n")
	h := History{Msgs: []Msg{{Kind: "initialize", ID: 0}, {Kind: "initialized"}}}
	feat := map[string]bool{}
	var kinds []string
	for i := 0; i < n; i++ {
		m := genMsg(rt, i+1, nil, feat)
		h.Msgs = append(h.Msgs, m)
		kinds = append(kinds, m.Kind)
	}
	var cl []string
	for k := range feat {
		cl = append(cl, k)
	}
	nt := feat["edit_past_end"] || feat["edit_negative"] || feat["edit_inverted"] || feat["malformed_json"] || feat["bad_header"] || feat["batched_changes"]
	hx.Case("lsp_history", nt, strings.Join(kinds, ","), cl...)
	hx.Sample("lsp_history", kinds)
	return h
}

// FuzzLSPHistory: coverage-guided search over the same generator (thorough tier).
func FuzzLSPHistory(f *testing.F) { histCheck.Fuzz(f, genLSPHistory) }
