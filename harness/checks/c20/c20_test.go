package c20

import (
	"bufio"
	"encoding/json"
	"fmt"
	"os"
	"os/exec"
	"path/filepath"
	"sort"
	"strconv"
	"strings"
	"sync"
	"testing"
	"time"

	"pgregory.net/rapid"
	"verif/gen/famgen"
	"verif/gen/sqlgen"
	"verif/internal/costmeas"
	"verif/internal/hx"
)

func TestMain(m *testing.M) {
	hx.Main(m, "C20")
}

// statements sums numStmts x count over the library's blocks of a covdata text profile.
func statements(dir string) (int64, error) {
	prof := filepath.Join(dir, "profile.txt")
	cmd := exec.Command("go", "tool", "covdata", "textfmt", "-i="+dir, "-o="+prof)
	cmd.Env = append(os.Environ(), "GOFLAGS=-mod=mod")
	if out, err := cmd.CombinedOutput(); err != nil {
		return 0, fmt.Errorf("covdata: %v: %s", err, out)
	}
	f, err := os.Open(prof)
	if err != nil {
		return 0, err
	}
	defer f.Close()
	var total int64
	sc := bufio.NewScanner(f)
	sc.Buffer(make([]byte, 1<<20), 1<<20)
	for sc.Scan() {
		l := sc.Text()
		if !strings.Contains(l, "ajitpratap0/GoSQLX/") {
			continue
		}
		fs := strings.Fields(l)
		if len(fs) != 3 {
			continue
		}
		n, _ := strconv.ParseInt(fs[1], 10, 64)
		c, _ := strconv.ParseInt(fs[2], 10, 64)
		total += n * c
	}
	return total, sc.Err()
}

// ---------------------------------------------------------------- the ladder oracle

type LadderCase struct {
	Family  string   `json:"family"`
	Unit    string   `json:"unit"`
	Sizes   []int    `json:"sizes"`
	Entries []string `json:"entries,omitempty"` // default: all
}

type point struct {
	stmts int64
	alloc uint64
	cpu   int64
	bytes int
	ok    bool
}

const (
	stmtRatioBound  = 2.35 // n log n gives <= 2.2 on these ladders; quadratic gives 4
	allocRatioBound = 2.6  // slice growth makes allocation steps a little uneven
	cpuRatioBound   = 3.3
)

func measure(c LadderCase, n int) (map[string]point, error) {
	root := os.Getenv("VERIF_WORK")
	if root == "" {
		root = os.TempDir()
	}
	dir, err := os.MkdirTemp(root, "c20-")
	if err != nil {
		return nil, err
	}
	defer os.RemoveAll(dir)
	spec, _ := json.Marshal(costmeas.MeasSpec{Family: c.Family, Unit: c.Unit, N: n, Out: dir, Only: c.Entries})
	probe, err := buildProbe()
	if err != nil {
		return nil, err
	}
	os.MkdirAll(filepath.Join(dir, "whole-run"), 0o755)
	cmd := exec.Command(probe, string(spec))
	cmd.Env = append(os.Environ(), "GOCOVERDIR="+filepath.Join(dir, "whole-run"), "GOMAXPROCS=2")
	done := make(chan error, 1)
	var out []byte
	go func() { var e error; out, e = cmd.CombinedOutput(); done <- e }()
	select {
	case err := <-done:
		if err != nil {
			return nil, fmt.Errorf("measurement child failed for %s n=%d: %v: %s", c.Family, n, err, tail(string(out)))
		}
	case <-time.After(3 * time.Minute):
		if cmd.Process != nil {
			cmd.Process.Kill()
		}
		return nil, errBudget
	}
	b, err := os.ReadFile(filepath.Join(dir, "meas.json"))
	if err != nil {
		return nil, err
	}
	var ms []costmeas.Meas
	if err := json.Unmarshal(b, &ms); err != nil {
		return nil, err
	}
	res := map[string]point{}
	for _, m := range ms {
		if m.Skipped {
			continue
		}
		p := point{alloc: m.Alloc, cpu: m.CPUns, bytes: m.Bytes, ok: true}
		if m.Cover {
			st, err := statements(filepath.Join(dir, m.Entry))
			if err != nil {
				return nil, err
			}
			p.stmts = st
		} else {
			p.stmts = -1
		}
		res[m.Entry] = p
	}
	return res, nil
}

var (
	probeOnce sync.Once
	probePath string
	probeErr  error
)

// buildProbe compiles cmd/costprobe with coverage counters for the library under test.
func buildProbe() (string, error) {
	probeOnce.Do(func() {
		root := os.Getenv("VERIF_ROOT")
		if root == "" {
			root = "/verif"
		}
		harness := filepath.Join(root, "harness")
		work := os.Getenv("VERIF_WORK")
		if work == "" {
			work = os.TempDir()
		}
		probePath = filepath.Join(work, fmt.Sprintf("costprobe-%d", os.Getpid()))
		args := []string{"build", "-cover", "-covermode=atomic", "-coverpkg=github.com/ajitpratap0/GoSQLX/...,verif/cmd/costprobe", "-o", probePath}
		if repo := os.Getenv("VERIF_REPO"); repo != "" && repo != "/repo" {
			// same redirection as the driver: a go.mod whose replace points at the tree under test
			src, err := os.ReadFile(filepath.Join(harness, "go.mod"))
			if err != nil {
				probeErr = err
				return
			}
			mf := filepath.Join(work, fmt.Sprintf("costprobe-%d.mod", os.Getpid()))
			os.WriteFile(mf, []byte(strings.ReplaceAll(string(src), "=> /repo", "=> "+repo)), 0o644)
			sum, _ := os.ReadFile(filepath.Join(harness, "go.sum"))
			os.WriteFile(strings.TrimSuffix(mf, ".mod")+".sum", sum, 0o644)
			args = append(args, "-modfile="+mf)
		}
		args = append(args, "./cmd/costprobe")
		cmd := exec.Command("go", args...)
		cmd.Dir = harness
		cmd.Env = append(os.Environ(), "GOFLAGS=-mod=mod")
		if out, err := cmd.CombinedOutput(); err != nil {
			probeErr = fmt.Errorf("cannot build the cost probe: %v\n%s", err, out)
		}
	})
	return probePath, probeErr
}

var errBudget = fmt.Errorf("time budget exhausted")

func tail(s string) string {
	if len(s) > 400 {
		return s[len(s)-400:]
	}
	return s
}

func oracleLadder(c LadderCase) error {
	var pts []map[string]point
	for _, n := range c.Sizes {
		p, err := measure(c, n)
		if err == errBudget {
			// the larger sizes are not measured; the sizes that finished still form a ladder
			hx.Class("ladder", "ladder_truncated_by_time_budget")
			break
		}
		if err != nil {
			return fmt.Errorf("HARNESS: %v", err)
		}
		pts = append(pts, p)
	}
	k := len(pts)
	if k < 3 {
		hx.Class("ladder", "inconclusive_fewer_than_three_sizes_within_budget")
		return nil
	}
	var names []string
	for e := range pts[k-1] {
		names = append(names, e)
	}
	sort.Strings(names)
	var failures []string
	fail := func(err error) { failures = append(failures, err.Error()) }
	for _, e := range names {
		var seq []point
		for _, p := range pts {
			if q, ok := p[e]; ok {
				seq = append(seq, q)
			}
		}
		if len(seq) < 3 {
			continue
		}
		a, b, d := seq[len(seq)-3], seq[len(seq)-2], seq[len(seq)-1]
		scale1 := float64(b.bytes) / float64(a.bytes)
		scale2 := float64(d.bytes) / float64(b.bytes)
		describe := func(what string, x, y, z float64) error {
			return fmt.Errorf("%s on family %s (unit %q): %s grows faster than the input: %.3g -> %.3g -> %.3g for %d -> %d -> %d bytes (ratios %.2f and %.2f for input ratios %.2f and %.2f)", e, c.Family, c.Unit, what, x, y, z, a.bytes, b.bytes, d.bytes, y/x, z/y, scale1, scale2)
		}
		if a.stmts > 0 {
			hx.Class("ladder", "measured_statement_ladders")
			if d.stmts >= 100000 {
				hx.Class("ladder", "ladders_over_1e5_statements")
			}
			r1, r2 := float64(b.stmts)/float64(a.stmts), float64(d.stmts)/float64(b.stmts)
			if r1 > stmtRatioBound*scale1/2 && r2 > stmtRatioBound*scale2/2 && d.stmts >= 100000 {
				fail(describe("statements executed", float64(a.stmts), float64(b.stmts), float64(d.stmts)))
				continue
			}
		} else {
			hx.Class("ladder", "no_coverage_counters")
		}
		if a.alloc > 0 && d.alloc >= 1<<20 {
			r1, r2 := float64(b.alloc)/float64(a.alloc), float64(d.alloc)/float64(b.alloc)
			if r1 > allocRatioBound*scale1/2 && r2 > allocRatioBound*scale2/2 {
				fail(describe("bytes allocated", float64(a.alloc), float64(b.alloc), float64(d.alloc)))
				continue
			}
		}
		if a.cpu >= int64(100*time.Millisecond) {
			r1, r2 := float64(b.cpu)/float64(a.cpu), float64(d.cpu)/float64(b.cpu)
			if r1 >= cpuRatioBound*scale1/2 && r2 >= cpuRatioBound*scale2/2 {
				fail(describe("CPU time (ns)", float64(a.cpu), float64(b.cpu), float64(d.cpu)))
			}
		}
	}
	if len(failures) > 0 {
		return fmt.Errorf("%s", strings.Join(failures, "\n  also: "))
	}
	return nil
}

var ladderCheck = hx.NewCheck("ladder", oracleLadder)

func ladder() []int {
	if hx.Tier() == "thorough" {
		return []int{16 << 10, 32 << 10, 64 << 10, 128 << 10, 256 << 10, 512 << 10}
	}
	return []int{8 << 10, 16 << 10, 32 << 10, 64 << 10}
}

var textEntries = []string{"tokenize", "scan_sql", "text_scanner", "lint", "lint_fix"}

func bigLadder() []int {
	if hx.Tier() == "thorough" {
		return []int{256 << 10, 512 << 10, 1 << 20, 2 << 20, 4 << 20}
	}
	return []int{128 << 10, 256 << 10, 512 << 10, 1 << 20}
}

func TestCatalogueLadders(t *testing.T) {
	hx.Rule("ladder", fmt.Sprintf("input families f(n) x %d entry points (tokenize, four parse variants, five serialisers, extract, inspect, three scanners, lint, lint fixes, release) on a geometric ladder of sizes (quick 8-64 KiB, thorough 16-512 KiB); each (family, n) runs in a fresh run of a probe binary built with -cover -covermode=atomic: counters are cleared before and written after each entry, cost = sum over the library's blocks of statements x executions (deterministic), plus bytes allocated and CPU time; oracle: on the two largest doublings the cost ratio stays below %.2f (statements) / %.1f (allocation) per input doubling; CPU time decides only at >= 100 ms and ratio >= %.1f twice; a child over its time budget is inconclusive; catalogue: %d grammar compositions + %d lexical families enumerated exhaustively (the text-only entry points additionally on a larger ladder, quick 128 KiB-1 MiB, thorough to 4 MiB), then generated families (composition x rapid-generated unit); non-trivial = largest step executes >= 1e5 statements; distinct = family + unit", len(costmeas.Entries), stmtRatioBound, allocRatioBound, cpuRatioBound, len(famgen.Compositions), len(famgen.Lexical)))
	hx.Exhaustive("ladder", true)
	var fams []string
	for _, c := range famgen.Compositions {
		fams = append(fams, "comp:"+c.Name)
	}
	for _, f := range famgen.Lexical {
		fams = append(fams, f.Name)
	}
	for i, f := range fams {
		if i%hx.Shards() != hx.Shard() {
			continue
		}
		if !hx.Allowed("c20.family." + f) {
			continue // listed finding: this family is known to grow faster than its input
		}
		c := LadderCase{Family: f, Sizes: ladder()}
		hx.Case("ladder", true, f, "catalogue")
		hx.Sample("ladder", map[string]interface{}{"family": f, "sizes": c.Sizes})
		ladderCheck.One(t, c)
		// entry points that only read the text are cheap: a second, larger ladder for them, where
		// time spent inside the standard library (invisible to statement counts) shows in CPU time
		big := LadderCase{Family: f, Sizes: bigLadder(), Entries: textEntries}
		hx.Case("ladder", true, f+"/big", "catalogue_large_text_ladder")
		ladderCheck.One(t, big)
	}
}

func TestGeneratedLadders(t *testing.T) {
	ladderCheck.Rapid(t, hx.N(24, 400), func(rt *rapid.T) LadderCase {
		comp := famgen.Compositions[rapid.IntRange(0, len(famgen.Compositions)-1).Draw(rt, "composition")]
		f := sqlgen.AllFeatures()
		f.MaxDepth = 2
		var unit string
		switch comp.Unit {
		case "expr":
			st := sqlgen.Statement(sqlgen.New(rt, f))
			unit = exprOf(st.Toks)
		default:
			g := sqlgen.New(rt, f)
			g.ForceFrom = true
			unit = sqlgen.SQL(selectOnly(rt, g))
		}
		if rapid.IntRange(0, 2).Draw(rt, "indexed") == 0 {
			// make every repetition distinct: number the first identifier-like word of the unit
			unit = indexFirstWord(unit)
		}
		c := LadderCase{Family: "comp:" + comp.Name, Unit: unit, Sizes: ladder()}
		hx.Case("ladder", true, c.Family+unit, "generated")
		hx.Sample("ladder", map[string]interface{}{"family": c.Family, "unit": unit})
		return c
	})
}

// exprOf cuts one select-list expression out of a generated statement (the tokens of the
// first select item), falling back to a column name.
func exprOf(toks []sqlgen.Tok) string {
	start := -1
	depth := 0
	for i, t := range toks {
		if start < 0 {
			if t.KW && strings.EqualFold(t.Text, "SELECT") {
				start = i + 1
			}
			continue
		}
		switch t.Text {
		case "(", "[":
			depth++
		case ")", "]":
			depth--
		}
		if depth == 0 && (t.Text == "," || t.KW && (strings.EqualFold(t.Text, "FROM") || strings.EqualFold(t.Text, "AS"))) || depth < 0 || i == len(toks)-1 {
			end := i
			if i == len(toks)-1 && depth == 0 && t.Text != "," {
				end = i + 1
			}
			if end > start {
				first := toks[start]
				if first.KW && (strings.EqualFold(first.Text, "DISTINCT") || strings.EqualFold(first.Text, "ALL")) {
					break
				}
				return sqlgen.SQL(toks[start:end])
			}
			break
		}
	}
	return "a"
}

func selectOnly(rt *rapid.T, g *sqlgen.G) []sqlgen.Tok {
	for i := 0; i < 8; i++ {
		st := sqlgen.Statement(g)
		if st.Kind == "select" && len(st.Toks) > 0 && strings.EqualFold(st.Toks[0].Text, "SELECT") {
			return st.Toks
		}
	}
	return []sqlgen.Tok{{Text: "SELECT", KW: true}, {Text: "a"}, {Text: "FROM", KW: true}, {Text: "t"}}
}

// indexFirstWord appends the repetition marker {i} to the first plain lower-case identifier of unit.
func indexFirstWord(unit string) string {
	words := strings.Fields(unit)
	for wi, w := range words {
		ok := len(w) > 0
		for _, r := range w {
			if !(r >= 'a' && r <= 'z' || r >= '0' && r <= '9' || r == '_') {
				ok = false
			}
		}
		if ok && w[0] >= 'a' && w[0] <= 'z' && !(wi+1 < len(words) && words[wi+1] == "(") {
			words[wi] = w + "_{i}"
			return strings.Join(words, " ")
		}
	}
	return unit
}
