package c04

import (
	"fmt"
	"strings"
	"testing"

	"github.com/ajitpratap0/GoSQLX/pkg/gosqlx"
	"github.com/ajitpratap0/GoSQLX/pkg/sql/tokenizer"
	"pgregory.net/rapid"
	"verif/gen/lexgen"
	"verif/gen/sqlgen"
	"verif/internal/astdump"
	"verif/internal/hx"
	"verif/internal/obs"
)

func TestMain(m *testing.M) { hx.Main(m, "C04") }

// ---------------------------------------------------------------- faithful reading

type LexCase struct {
	Text lexgen.Text `json:"text"`
}

func features() lexgen.Features {
	return lexgen.Features{
		StringStartsWithDoubledQuote: hx.Allowed("c04.string_starts_with_doubled_quote"),
		TrailingComment:              hx.Allowed("c04.trailing_comment"),
		Comments:                     true,
	}
}

func tokenize(src string) ([]obs.Tok, []string, error) {
	tkz, err := tokenizer.New()
	if err != nil {
		return nil, nil, err
	}
	toks, err := tkz.Tokenize([]byte(src))
	if err != nil {
		return nil, nil, err
	}
	var cs []string
	for _, c := range tkz.Comments {
		cs = append(cs, c.Text)
	}
	return obs.Observe(toks), cs, nil
}

// matchTok compares one observed token with its expectation.
func matchTok(e lexgen.ExpTok, g obs.Tok) string {
	switch e.Kind {
	case lexgen.KWord:
		if g.Kind != "kw" && g.Kind != "id" {
			return fmt.Sprintf("kind %s, want a word", g.Kind)
		}
		if e.Class == "kw" && g.Kind != "kw" {
			return "documented keyword typed as identifier"
		}
		if e.Class == "id" && g.Kind != "id" {
			return "identifier typed as keyword"
		}
		if e.Class == "kw" || g.Kind == "kw" {
			if !strings.EqualFold(e.Value, g.Value) {
				return fmt.Sprintf("value %q, want %q", g.Value, e.Value)
			}
		} else if e.Value != g.Value {
			return fmt.Sprintf("value %q, want %q", g.Value, e.Value)
		}
	default:
		if g.Kind != e.Kind {
			return fmt.Sprintf("kind %s, want %s", g.Kind, e.Kind)
		}
		if g.Value != e.Value {
			return fmt.Sprintf("value %q, want %q", g.Value, e.Value)
		}
	}
	return ""
}

func oracleLex(c LexCase) error {
	// harness self-check: the reference lexer must read the text as generated
	ref, err := lexgen.RefLex(c.Text.Src)
	if err != nil {
		return fmt.Errorf("HARNESS: reference lexer rejects generated text: %v", err)
	}
	nt := 0
	for _, r := range ref {
		if r.Kind != lexgen.KComment {
			if nt >= len(c.Text.Tokens) || r.Kind != c.Text.Tokens[nt].Kind || r.Value != c.Text.Tokens[nt].Value || r.Off != c.Text.Tokens[nt].Off {
				return fmt.Errorf("HARNESS: reference lexer disagrees with generator at token %d (%+v)", nt, r)
			}
			nt++
		}
	}
	if nt != len(c.Text.Tokens) {
		return fmt.Errorf("HARNESS: reference lexer found %d tokens, generator placed %d", nt, len(c.Text.Tokens))
	}

	got, comments, err := tokenize(c.Text.Src)
	if err != nil {
		return fmt.Errorf("tokenizer rejects text of the reference grammar: %v", err)
	}
	for i, e := range c.Text.Tokens {
		if i >= len(got) {
			return fmt.Errorf("token %d (%s %q) missing: stream has %d tokens", i, e.Kind, e.Value, len(got))
		}
		if msg := matchTok(e, got[i]); msg != "" {
			return fmt.Errorf("token %d (source %q): %s", i, e.Text, msg)
		}
	}
	rest := got[len(c.Text.Tokens):]
	if len(rest) != 1 || rest[0].Kind != "eof" {
		var ks []string
		for _, r := range rest {
			ks = append(ks, r.Kind+":"+r.Value)
		}
		return fmt.Errorf("after the %d expected tokens the stream must hold exactly one end-of-input marker, got %v", len(c.Text.Tokens), ks)
	}
	if len(comments) != len(c.Text.Comments) {
		return fmt.Errorf("captured %d comments %q, want %d", len(comments), comments, len(c.Text.Comments))
	}
	for i, e := range c.Text.Comments {
		if comments[i] != e.Value {
			return fmt.Errorf("comment %d text %q, want %q", i, comments[i], e.Value)
		}
	}
	return nil
}

var lexCheck = hx.NewCheck("lex_faithful", oracleLex)

func classify(check string, tx lexgen.Text, lx []lexgen.Lexeme) {
	var abut, comment, escape, nonascii, multiline bool
	var kinds []string
	for i, s := range tx.SepClass {
		if s == lexgen.SepNone && i > 0 && i < len(tx.SepClass)-1 {
			abut = true
		}
	}
	comment = len(tx.Comments) > 0
	for _, l := range lx {
		kinds = append(kinds, l.Kind)
		if (l.Kind == lexgen.KString || l.Kind == lexgen.KQIdent || l.Kind == lexgen.KBIdent) && l.Value != l.Text[1:len(l.Text)-1] {
			escape = true
		}
		for _, r := range l.Text {
			if r >= 0x80 {
				nonascii = true
			}
		}
		if strings.Contains(l.Text, "\n") {
			multiline = true
		}
	}
	var cl []string
	for n, b := range map[string]bool{"abutting": abut, "comment": comment, "escape_or_doubled_quote": escape, "non_ascii": nonascii, "multiline_lexeme": multiline} {
		if b {
			cl = append(cl, n)
		}
	}
	hx.Case(check, abut || comment || escape || nonascii, strings.Join(kinds, ",")+"|"+strings.Join(tx.SepClass, ","), cl...)
}

func TestLexFaithful(t *testing.T) {
	hx.Rule("lex_faithful", "lexeme sequences (1-30) from the reference grammar x drawn separators; expected kinds/values/one EOF/comments by construction; non-trivial = has a no-separator adjacency, a comment, an escape/doubled quote or a non-ASCII lexeme; distinct = (lexeme kinds, separator classes)")
	lexCheck.Rapid(t, hx.N(120000, 1200000), genLexFaithful)
}

// ---------------------------------------------------------------- layout / case independence

type LayoutCase struct {
	A lexgen.Text `json:"a"`
	B lexgen.Text `json:"b"`
}

func oracleLayout(c LayoutCase) error {
	ga, _, ea := tokenize(c.A.Src)
	gb, _, eb := tokenize(c.B.Src)
	if (ea == nil) != (eb == nil) {
		return fmt.Errorf("one layout tokenizes and the other does not: %v / %v", ea, eb)
	}
	if ea != nil {
		return nil // rejection of reference-grammar text is lex_faithful's business
	}
	strip := func(ts []obs.Tok) []obs.Tok { // collapse any run of EOF markers: their number is lex_faithful's business
		for len(ts) > 0 && ts[len(ts)-1].Kind == "eof" {
			ts = ts[:len(ts)-1]
		}
		return ts
	}
	ga, gb = strip(ga), strip(gb)
	if len(ga) != len(gb) {
		return fmt.Errorf("layout A gives %d tokens, layout B %d", len(ga), len(gb))
	}
	for i := range ga {
		a, b := ga[i], gb[i]
		if a.Kind != b.Kind {
			return fmt.Errorf("token %d: kind %s under layout A, %s under layout B (%q / %q)", i, a.Kind, b.Kind, a.Value, b.Value)
		}
		if a.Kind == "kw" {
			if !strings.EqualFold(a.Value, b.Value) {
				return fmt.Errorf("token %d: keyword %q vs %q", i, a.Value, b.Value)
			}
		} else if a.Value != b.Value {
			return fmt.Errorf("token %d: value %q vs %q", i, a.Value, b.Value)
		}
	}
	return nil
}

var layoutCheck = hx.NewCheck("lex_layout_invariant", oracleLayout)

func TestLexLayoutInvariant(t *testing.T) {
	hx.Rule("lex_layout_invariant", "one lexeme list rendered twice with independent separators and keyword letter case; kinds and values (keywords case-folded, compound keyword tokens split) must agree; non-trivial/distinct as lex_faithful")
	layoutCheck.Rapid(t, hx.N(80000, 800000), func(rt *rapid.T) LayoutCase {
		f := features()
		lx := lexgen.GenLexemes(rt, f, 30)
		a := lexgen.Render(lx, lexgen.GenSeps(rt, f, lx, "a"))
		lb := lexgen.Recase(rt, lx)
		b := lexgen.Render(lb, lexgen.GenSeps(rt, f, lb, "b"))
		classify("lex_layout_invariant", a, lx)
		hx.Sample("lex_layout_invariant", []string{a.Src, b.Src})
		return LayoutCase{a, b}
	})
}

// ---------------------------------------------------------------- exhaustive operator pairs

func TestOperatorPairsExhaustive(t *testing.T) {
	if hx.Shard() != 0 {
		t.Skip("enumeration runs on shard 0 only")
	}
	hx.Rule("op_pairs", "every ordered pair of operator/punctuation lexemes, abutting where the reference lexer allows and separated by a space, between two identifiers; exhaustive")
	all := append(append([]string{}, lexgen.Operators...), lexgen.Puncts...)
	mk := func(s string) lexgen.Lexeme {
		k := lexgen.KOp
		if strings.Contains("()[],;.", s) {
			k = lexgen.KPunct
		}
		return lexgen.Lexeme{Kind: k, Text: s, Value: s}
	}
	id := func(s string) lexgen.Lexeme { return lexgen.Lexeme{Kind: lexgen.KWord, Text: s, Value: s, Class: "id"} }
	n := 0
	for _, a := range all {
		for _, b := range all {
			la, lb := mk(a), mk(b)
			for _, mid := range []string{"", " "} {
				if mid == "" && !lexgen.CanAbut(la, lb) {
					continue
				}
				lx := []lexgen.Lexeme{id("a1"), la, lb, id("b_2")}
				s0, s2 := " ", " "
				if lexgen.CanAbut(lx[0], la) {
					s0 = ""
				}
				if lexgen.CanAbut(lb, lx[3]) {
					s2 = ""
				}
				tx := lexgen.Render(lx, []lexgen.Sep{{Text: ""}, {Text: s0}, {Text: mid}, {Text: s2}, {Text: ""}})
				hx.Case("op_pairs", true, a+" "+mid+b)
				hx.Sample("op_pairs", tx.Src)
				n++
				if !lexCheck.One(t, LexCase{tx}) {
					return
				}
			}
		}
	}
	hx.Exhaustive("op_pairs", true)
	t.Logf("operator pairs: %d cases", n)
}

// ---------------------------------------------------------------- layout never changes the parse

type ParseLayoutCase struct {
	Canonical string `json:"canonical"`
	Laid      string `json:"laid_out"`
}

func parseDump(sql string) (string, error) {
	tree, err := gosqlx.Parse(sql)
	if err != nil {
		return "", err
	}
	return astdump.DumpOpt(tree.Statements, astdump.Options{FoldCase: true}), nil
}

func oracleParseLayout(c ParseLayoutCase) error {
	a, ea := parseDump(c.Canonical)
	b, eb := parseDump(c.Laid)
	if (ea == nil) != (eb == nil) {
		return fmt.Errorf("same lexical elements, different verdict: canonical layout err=%v, other layout err=%v", short(ea), short(eb))
	}
	if ea == nil && a != b {
		return fmt.Errorf("same lexical elements parse to different trees: %s", astdump.Diff(b, a))
	}
	return nil
}

func short(err error) string {
	if err == nil {
		return "<nil>"
	}
	s := err.Error()
	if i := strings.IndexByte(s, '\n'); i >= 0 {
		s = s[:i]
	}
	return s
}

var parseLayoutCheck = hx.NewCheck("parse_layout_invariant", oracleParseLayout)

func TestParseLayoutInvariant(t *testing.T) {
	hx.Rule("parse_layout_invariant", "G-SQL statement tokens rendered once with single spaces and once with drawn separators (none where legal, newlines, tabs, line/block comments) re-drawn keyword case and some double-quoted identifiers re-spelled with backticks; both must get the same verdict and the same tree (strings case-folded); non-trivial = the second layout has a comment or an abutting pair; distinct = separator classes + token count")
	parseLayoutCheck.Rapid(t, hx.N(60000, 600000), func(rt *rapid.T) ParseLayoutCase {
		sf := sqlgen.FullFeatures()
		g := sqlgen.New(rt, sf)
		st := sqlgen.Statement(g)
		lx := sqlgen.Lexemes(st.Toks)
		f := features()
		lb := lexgen.Recase(rt, lx)
		requoted := false
		for i := range lb {
			// "name" and `name` are two spellings of the same quoted identifier (the tokenizer documents
			// backticks for MySQL compatibility): whatever the name spells, it is a name
			if lb[i].Kind == lexgen.KQIdent && !strings.ContainsAny(lb[i].Value, "`\"\n") && rapid.IntRange(0, 3).Draw(rt, "backtick") == 0 {
				lb[i].Kind, lb[i].Text = lexgen.KBIdent, "`"+lb[i].Value+"`"
				requoted = true
			}
		}
		tx := lexgen.Render(lb, lexgen.GenSeps(rt, f, lb, "p"))
		abut := false
		for i, s := range tx.SepClass {
			if s == lexgen.SepNone && i > 0 && i < len(tx.SepClass)-1 {
				abut = true
			}
		}
		var cl []string
		if abut {
			cl = append(cl, "abutting")
		}
		if len(tx.Comments) > 0 {
			cl = append(cl, "comment")
		}
		if requoted {
			cl = append(cl, "backtick_requoted")
		}
		hx.Case("parse_layout_invariant", abut || len(tx.Comments) > 0, strings.Join(tx.SepClass, ",")+st.Kind, cl...)
		hx.Sample("parse_layout_invariant", tx.Src)
		return ParseLayoutCase{Canonical: sqlgen.SQL(st.Toks), Laid: tx.Src}
	})
}

// genLexFaithful is the case generator of lexCheck (shared by the rapid run and the native fuzz target).
func genLexFaithful(rt *rapid.T) LexCase {
	f := features()
	lx := lexgen.GenLexemes(rt, f, 30)
	tx := lexgen.Render(lx, lexgen.GenSeps(rt, f, lx, "s"))
	classify("lex_faithful", tx, lx)
	hx.Sample("lex_faithful", tx.Src)
	return LexCase{tx}
}

// FuzzLexFaithful: coverage-guided search over the same generator (thorough tier).
func FuzzLexFaithful(f *testing.F) { lexCheck.Fuzz(f, genLexFaithful) }
