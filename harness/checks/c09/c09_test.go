package c09

import (
	"fmt"
	"reflect"
	"runtime"
	"runtime/debug"
	"strings"
	"sync"
	"testing"

	"github.com/ajitpratap0/GoSQLX/pkg/gosqlx"
	"github.com/ajitpratap0/GoSQLX/pkg/models"
	"github.com/ajitpratap0/GoSQLX/pkg/sql/ast"
	"github.com/ajitpratap0/GoSQLX/pkg/sql/security"
	"github.com/ajitpratap0/GoSQLX/pkg/sql/tokenizer"
	"github.com/ajitpratap0/GoSQLX/pkg/transform"
	"pgregory.net/rapid"
	"verif/gen/sqlgen"
	"verif/internal/astdump"
	"verif/internal/hx"
	"verif/internal/reflectx"
	"verif/internal/registry"
)

func TestMain(m *testing.M) { hx.Main(m, "C09") }

func pin() func() {
	runtime.LockOSThread()
	old := debug.SetGCPercent(-1)
	return func() { debug.SetGCPercent(old); runtime.UnlockOSThread() }
}

// ---------------------------------------------------------------- cleanliness sweep (type, field)

type CleanCase struct {
	Type  string `json:"type"`
	Field string `json:"field"`         // "*" = every field filled
	Len   int    `json:"len,omitempty"` // elements per slice (default 1)
}

func findPool(name string) *registry.Pool {
	for i := range registry.Pools {
		if registry.Pools[i].Type == name {
			return &registry.Pools[i]
		}
	}
	return nil
}

func oracleClean(c CleanCase) error {
	p := findPool(c.Type)
	if p == nil {
		return nil
	}
	defer pin()()
	reflectx.SliceLen = c.Len
	defer func() { reflectx.SliceLen = 1 }()
	obj := p.New()
	v := reflect.ValueOf(obj).Elem()
	if c.Field == "*" {
		reflectx.Fill(v, c.Type, 3)
	} else {
		f := v.FieldByName(c.Field)
		if !f.IsValid() {
			return nil
		}
		reflectx.Fill(f, c.Type+"."+c.Field, 3)
	}
	want := astdump.Dump(p.New())
	if astdump.Dump(obj) == want && c.Field != "*" {
		return nil // field could not be made non-zero
	}
	if hx.Allowed("c09.clean.span_table") {
		ast.SetSpan(obj, models.Span{Start: models.Location{Line: 3, Column: 4}, End: models.Location{Line: 5, Column: 6}})
	}
	p.Put(obj)
	if sp := ast.GetSpan(obj); sp != models.EmptySpan() {
		return fmt.Errorf("%s released after ast.SetSpan recorded a span for it: ast.GetSpan still reports %v for the pooled object, a freshly constructed one has none", c.Type, sp)
	}
	if got := astdump.Dump(obj); got != want {
		return fmt.Errorf("%s released with %s set is not reset by its release path: it still holds %s", c.Type, fieldDesc(c), clip(got))
	}
	if r := reflectx.Residue(reflect.ValueOf(obj)); len(r) > 0 && hx.Allowed("c09.clean.backing_array") {
		return fmt.Errorf("%s released with %s set keeps the previous content behind a truncated slice (visible again after reslicing to capacity): %s", c.Type, fieldDesc(c), clip(strings.Join(r, "; ")))
	}
	if p.Get != nil {
		g := p.Get()
		if g == obj {
			hx.Class("pool_clean", "identity_hit")
		}
		if got := astdump.Dump(g); got != want {
			return fmt.Errorf("after releasing a %s with %s set, the next Get returns %s instead of a clean value", c.Type, fieldDesc(c), clip(got))
		}
		if sp := ast.GetSpan(g); sp != models.EmptySpan() {
			return fmt.Errorf("after releasing a %s for which a span was recorded, the next Get returns a value for which ast.GetSpan reports %v", c.Type, sp)
		}
		if r := reflectx.Residue(reflect.ValueOf(g)); len(r) > 0 && hx.Allowed("c09.clean.backing_array") {
			return fmt.Errorf("after releasing a %s with %s set, the next Get returns a value that keeps the previous holder's content behind a truncated slice: %s", c.Type, fieldDesc(c), clip(strings.Join(r, "; ")))
		}
	}
	return nil
}

func fieldDesc(c CleanCase) string {
	if c.Field == "*" {
		return "every field"
	}
	return "field " + c.Field
}

func clip(s string) string {
	if len(s) > 300 {
		return s[:300] + "…"
	}
	return s
}

var cleanCheck = hx.NewCheck("pool_clean", oracleClean)

func TestPoolClean(t *testing.T) {
	if hx.Shard() != 0 {
		t.Skip("enumeration runs on shard 0 only")
	}
	hx.Rule("pool_clean", "every pooled type with a Put accessor (registry generated from pkg/sql/ast/pool.go) x every exported field x slice lengths {1, 40, 300}: a value with exactly that field (and once with every field) filled with arbitrary non-zero content, and with a span recorded for it through ast.SetSpan, is released through its public path; the released object and the object the next Get returns (goroutine pinned, same object) must dump equal to a freshly constructed one, hold only zero values between the length and the capacity of every slice reachable from it, and have no recorded span; exhaustive over (type, field)")
	n := 0
	for _, p := range registry.Pools {
		ty := reflect.TypeOf(p.New()).Elem()
		fields := []string{"*"}
		for i := 0; i < ty.NumField(); i++ {
			if ty.Field(i).PkgPath == "" {
				fields = append(fields, ty.Field(i).Name)
			}
		}
		for _, f := range fields {
			for _, ln := range []int{1, 40, 300} {
				if ln > 1 && f != "*" {
					if sf, ok := ty.FieldByName(f); !ok || sf.Type.Kind() != reflect.Slice {
						continue // longer slices only matter for slice fields (and for "every field")
					}
				}
				c := CleanCase{Type: p.Type, Field: f, Len: ln}
				if !hx.Allowed("c09.clean."+p.Type) || !hx.Allowed("c09.clean."+p.Type+"."+f) {
					continue
				}
				n++
				hx.Case("pool_clean", true, fmt.Sprint(p.Type, ".", f, "/", ln))
				hx.Sample("pool_clean", c)
				cleanCheck.One(t, c)
			}
		}
	}
	hx.Exhaustive("pool_clean", true)
	t.Logf("%d (type, field) pairs", n)
}

// ---------------------------------------------------------------- parse after polluting the pools

type DirtyCase struct {
	SQL  string `json:"sql"`
	Want string `json:"want"`
}

func pollute() {
	for round := 0; round < 3; round++ {
		for _, p := range registry.Pools {
			obj := p.New()
			reflectx.Fill(reflect.ValueOf(obj).Elem(), "pollute", 3)
			p.Put(obj)
		}
		// expression kinds that are only released through the generic path
		for _, ty := range registry.StructTypes {
			pv := reflect.New(ty)
			if e, ok := pv.Interface().(ast.Expression); ok {
				reflectx.Fill(pv.Elem(), "pollute", 2)
				ast.PutExpression(e)
			}
		}
		a := ast.NewAST()
		a.Statements = append(a.Statements, &ast.SelectStatement{Distinct: true, TableName: "dirty"})
		a.Comments = append(a.Comments, models.Comment{Text: "-- dirty"})
		ast.ReleaseAST(a)
	}
}

func oracleDirty(c DirtyCase) error {
	defer pin()()
	pollute()
	tree, err := gosqlx.Parse(c.SQL)
	if err != nil {
		return fmt.Errorf("after dirty values were released into the pools, an accepted statement is rejected: %v", err)
	}
	if len(tree.Comments) != 0 {
		return fmt.Errorf("tree container from the pool carries %d comments of a previous holder", len(tree.Comments))
	}
	if got := astdump.Dump(tree.Statements); got != c.Want {
		return fmt.Errorf("after dirty values were released into the pools the parsed tree differs from the prescribed one: %s", astdump.Diff(got, c.Want))
	}
	return nil
}

var dirtyCheck = hx.NewCheck("parse_after_dirty_release", oracleDirty)

func TestParseAfterDirtyRelease(t *testing.T) {
	hx.Rule("parse_after_dirty_release", "before each parse every pool is polluted with fully populated values of every pooled type (through PutX, PutExpression and ReleaseAST); the tree parsed from a G-SQL statement must still equal the model tree exactly; non-trivial = statement uses a node kind the parser draws from a pool (tuple, array, subscript, slice) or >= 6 features; distinct = feature set")
	dirtyCheck.Rapid(t, hx.N(7500, 60000), func(rt *rapid.T) DirtyCase {
		g := sqlgen.New(rt, sqlgen.FullFeatures())
		st := sqlgen.Statement(g)
		var cl []string
		for k := range st.Stats {
			cl = append(cl, k)
		}
		pooled := st.Stats["array"]+st.Stats["subscript"] > 0
		hx.Case("parse_after_dirty_release", pooled || len(cl) >= 6, strings.Join(cl, ","), map[bool]string{true: "uses_pooled_node_kind", false: "no_pooled_node_kind"}[pooled])
		sql := sqlgen.SQL(st.Toks)
		hx.Sample("parse_after_dirty_release", sql)
		return DirtyCase{SQL: sql, Want: astdump.Dump([]ast.Statement{st.Node})}
	})
}

// ---------------------------------------------------------------- held values are never modified

type HoldOp struct {
	Kind string `json:"kind"`
	SQL  string `json:"sql,omitempty"`
	N    int    `json:"n,omitempty"`
	Idx  int    `json:"idx,omitempty"`
}

type HoldHistory struct {
	Ops []HoldOp `json:"ops"`
}

type held struct {
	what string
	val  interface{}
	snap string
	tree *ast.AST
}

// transformRules builds one set of transform rules per history; each Rule value is then applied
// to any number of held trees (a rule must not make two trees share nodes).
func transformRules() []transform.Rule {
	return []transform.Rule{
		transform.AddWhereFromSQL("paid = false AND qty > 3"),
		transform.AddWhereFromSQL("lower ( name ) LIKE 'a%'"),
		transform.AddJoinFromSQL("LEFT JOIN audit_log al ON al . id = t1 . id AND al . kind = 'x'"),
		transform.AddJoinFromSQL("JOIN extra e ON e . k = 1"),
		transform.SetLimit(7),
		transform.SetOffset(3),
		transform.AddOrderBy("created_at", true),
		transform.ReplaceTable("t1", "t1_archive"),
		transform.AddTableAlias("t2", "tt"),
		transform.QualifyColumns("t1"),
		transform.RemoveColumn("b"),
		transform.ReplaceColumn("a", "a_new"),
		transform.AddSelectStar(),
		transform.RemoveWhere(),
		transform.RemoveLimit(),
		transform.RemoveOrderBy(),
		transform.RemoveJoin("t2"),
	}
}

func runHold(h HoldHistory) error {
	defer pin()() // sync.Pool hands a released node back to the same processor: keep the history on one
	rules := transformRules()
	var H []*held
	hold := func(what string, v interface{}, tree *ast.AST) {
		H = append(H, &held{what: what, val: v, snap: astdump.Dump(v), tree: tree})
	}
	check := func(step int, op HoldOp) error {
		for _, x := range H {
			if x == nil {
				continue
			}
			if got := astdump.Dump(x.val); got != x.snap {
				return fmt.Errorf("step %d (%s): a held %s was modified by later library activity: %s", step, op.Kind, x.what, astdump.Diff(got, x.snap))
			}
		}
		return nil
	}
	// poolDistinct: whatever was released before, values drawn from the pools now belong to this
	// caller alone: pairwise distinct and not part of any tree still held
	poolDistinct := func(i int) error {
		// whatever was released before, values drawn from the pools now belong to
		// this caller alone: pairwise distinct and not part of any tree still held
		live := map[uintptr]string{}
		for _, x := range H {
			if x != nil && x.tree != nil {
				ptrs(reflect.ValueOf(x.val), live, "a held tree")
			}
		}
		var drawn []interface{}
		for _, p := range registry.Pools {
			if p.Get == nil {
				continue
			}
			for k := 0; k < 3; k++ {
				o := p.Get()
				a := reflect.ValueOf(o).Pointer()
				if who, dup := live[a]; dup {
					return fmt.Errorf("step %d: Get%s returned a node that is still part of %s (released twice or while in use)", i, p.Type, who)
				}
				live[a] = "another value drawn from the " + p.Type + " pool"
				drawn = append(drawn, o)
			}
		}
		for j, p := range drawnPools() {
			_ = j
			_ = p
		}
		for _, o := range drawn { // give them back, clean
			for _, p := range registry.Pools {
				if reflect.TypeOf(o) == reflect.TypeOf(p.New()) {
					p.Put(o)
				}
			}
		}
		return nil
	}
	for i, op := range h.Ops {
		switch op.Kind {
		case "parse_hold":
			if t, err := gosqlx.Parse(op.SQL); err == nil {
				hold("tree", t.Statements, t)
			}
		case "tokenize_hold_put", "tokenize_hold_keep":
			tkz := tokenizer.GetTokenizer()
			toks, err := tkz.Tokenize([]byte(op.SQL))
			if err == nil {
				hold("token slice", toks, nil)
				hold("comment slice", tkz.Comments, nil)
			}
			if op.Kind == "tokenize_hold_put" {
				tokenizer.PutTokenizer(tkz)
			}
		case "reuse_tokenizer": // same pooled tokenizer, another input
			tkz := tokenizer.GetTokenizer()
			tkz.Tokenize([]byte(op.SQL))
			tokenizer.PutTokenizer(tkz)
		case "derive_hold":
			if len(H) == 0 {
				continue
			}
			x := H[op.Idx%len(H)]
			if x == nil || x.tree == nil {
				continue
			}
			hold("extracted table list", gosqlx.ExtractTables(x.tree), nil)
			hold("extracted column list", gosqlx.ExtractColumns(x.tree), nil)
			hold("scan result", security.NewScanner().Scan(x.tree), nil)
			hold("formatted text", x.tree.Format(ast.ReadableStyle()), nil)
		case "release":
			if len(H) == 0 {
				continue
			}
			j := op.Idx % len(H)
			if H[j] != nil && H[j].tree != nil {
				ast.ReleaseAST(H[j].tree)
				H[j] = nil
			}
		case "churn":
			for k := 0; k < op.N; k++ {
				if t, err := gosqlx.Parse(op.SQL); err == nil {
					ast.ReleaseAST(t)
				}
				gosqlx.Validate(op.SQL)
			}
		case "churn_goroutines":
			var wg sync.WaitGroup
			for g := 0; g < 4; g++ {
				wg.Add(1)
				go func() {
					defer wg.Done()
					for k := 0; k < op.N; k++ {
						if t, err := gosqlx.Parse(op.SQL); err == nil {
							ast.ReleaseAST(t)
						}
					}
				}()
			}
			wg.Wait()
		case "pool_gets":
			if err := poolDistinct(i); err != nil {
				return err
			}
		case "recovery_hold":
			stmts, _ := gosqlx.ParseWithRecovery(op.SQL)
			hold("recovery statement list", stmts, nil)
		case "transform":
			// the caller rewrites ONE of its trees in place with a rule it also uses on others:
			// only that tree may change
			if len(H) == 0 {
				continue
			}
			x := H[op.Idx%len(H)]
			if x == nil || x.tree == nil || len(x.tree.Statements) == 0 {
				continue
			}
			_ = transform.Apply(x.tree.Statements[0], rules[op.N%len(rules)])
			x.snap = astdump.Dump(x.val)
		}
		if err := check(i, op); err != nil {
			return err
		}
	}
	// end of history: release every tree still held and look at the pools once more, so that a
	// node released twice is reported by the history that did it (the pools are process-wide)
	for j, x := range H {
		if x != nil && x.tree != nil {
			ast.ReleaseAST(x.tree)
			H[j] = nil
		}
	}
	for j := range H {
		H[j] = nil
	}
	return poolDistinct(len(h.Ops))
}

func drawnPools() []string { return nil }

// ptrs records the address of every struct reachable from v through pointers.
func ptrs(v reflect.Value, out map[uintptr]string, who string) {
	seen := map[uintptr]bool{}
	var walk func(v reflect.Value, d int)
	walk = func(v reflect.Value, d int) {
		if !v.IsValid() || d > 2000 {
			return
		}
		switch v.Kind() {
		case reflect.Interface:
			if !v.IsNil() {
				walk(v.Elem(), d+1)
			}
		case reflect.Ptr:
			if v.IsNil() {
				return
			}
			if v.Elem().Kind() == reflect.Struct {
				a := v.Pointer()
				if seen[a] {
					return
				}
				seen[a] = true
				out[a] = who
			}
			walk(v.Elem(), d+1)
		case reflect.Struct:
			for i := 0; i < v.NumField(); i++ {
				if v.Type().Field(i).PkgPath == "" {
					walk(v.Field(i), d+1)
				}
			}
		case reflect.Slice, reflect.Array:
			for i := 0; i < v.Len(); i++ {
				walk(v.Index(i), d+1)
			}
		}
	}
	walk(v, 0)
}

var holdCheck = hx.NewCheck("held_values_stable", runHold)

// sharedShapes: statements in whose tree one sub-tree is referenced from two places (the first FROM item is
// copied into the first join's Left; a set operation keeps the WITH clause on its leftmost SELECT, ...):
// releasing such a tree must still put every node back exactly once
var sharedShapes = []string{
	"SELECT * FROM ( SELECT id FROM users ) d JOIN orders o ON d . id = o . id",
	"SELECT * FROM ( SELECT id FROM users ) d JOIN ( SELECT id FROM orders ) o ON d . id = o . id JOIN t3 ON t3 . a = d . id",
	"SELECT a FROM ( SELECT b FROM ( SELECT c FROM t1 ) x ) y LEFT JOIN t2 ON TRUE",
	"WITH c AS ( SELECT 1 AS a ) SELECT a FROM c UNION ALL SELECT a FROM c EXCEPT SELECT 2",
	"SELECT a FROM t1 , LATERAL ( SELECT b FROM t2 WHERE t2 . a = t1 . a ) l JOIN t3 ON TRUE",
	"INSERT INTO t1 SELECT * FROM ( SELECT a FROM t2 ) d JOIN t3 ON d . a = t3 . a",
	"MERGE INTO t1 USING ( SELECT a FROM t2 ) s ON t1 . a = s . a WHEN MATCHED THEN DELETE",
	"SELECT a FROM t1 WHERE a IN ( SELECT b FROM ( SELECT b FROM t2 ) d JOIN t3 ON TRUE )",
}

func genHoldSQL(rt *rapid.T) string {
	if rapid.IntRange(0, 7).Draw(rt, "shared_shape") == 7 {
		return rapid.SampledFrom(sharedShapes).Draw(rt, "shape")
	}
	f := sqlgen.FullFeatures()
	f.MaxDepth = 2
	s := sqlgen.SQL(sqlgen.Statement(sqlgen.New(rt, f)).Toks)
	switch rapid.IntRange(0, 3).Draw(rt, "decor") {
	case 0:
		return "-- lead\n" + s + " /* mid */ -- tail"
	case 1:
		return s + " ; " + s
	}
	if rapid.IntRange(0, 2).Draw(rt, "wherehaving") == 0 {
		// a statement whose WHERE and HAVING roots are of several node kinds (incl. the kinds the parser draws from pools)
		w := rapid.SampledFrom([]string{"a [ 1 ]", "( a , b ) = ( 1 , 2 )", "a = 1 AND b = 2", "f ( a )", "a IN ( 1 , 2 )", "a BETWEEN 1 AND 2", "NOT a", "CASE WHEN a THEN b END", "a :: BOOLEAN"}).Draw(rt, "whereroot")
		h := rapid.SampledFrom([]string{"b [ 2 ]", "count ( * ) > 1", "a"}).Draw(rt, "havingroot")
		return "SELECT a , b [ 1 ] FROM t1 WHERE " + w + " GROUP BY a HAVING " + h
	}
	return s
}

func TestHeldValuesStable(t *testing.T) {
	hx.Rule("held_values_stable", "histories of parse-and-hold, tokenize-and-hold (tokens and comments; tokenizer kept or returned to the pool), reuse of the pooled tokenizer, derive-and-hold (extracted lists, scan result, formatted text), release of one held tree, in-place rewriting of one held tree with a pkg/transform rule that is shared by the whole history (17 rules), churn of parse+release on this and on four other goroutines, recovery-parse-and-hold; after every step every value still held must dump equal to its snapshot; non-trivial = a release or >= 10 churn parses between a hold and a later check; distinct = op kinds")
	holdCheck.Rapid(t, hx.N(10000, 80000), genHoldHistory)
}

// genHoldHistory is the case generator of holdCheck (shared by the rapid run and the native fuzz target).
func genHoldHistory(rt *rapid.T) HoldHistory {
	if rapid.IntRange(0, 3).Draw(rt, "transform_focus") == 0 {
		// several trees rewritten with the SAME rule values, then one of them released or
		// rewritten again while the others are still held
		var h HoldHistory
		nTrees := rapid.IntRange(2, 4).Draw(rt, "trees")
		for i := 0; i < nTrees; i++ {
			sql := rapid.SampledFrom([]string{"SELECT a , b FROM t1 WHERE c = 1", "SELECT a FROM t1 JOIN t2 ON t1 . a = t2 . a", "SELECT * FROM t1", "UPDATE t1 SET a = 1 WHERE b = 2", "DELETE FROM t1 WHERE a = 1",
				"SELECT a , b FROM t1 WHERE c > 0 ORDER BY a LIMIT 3"}).Draw(rt, "tsql")
			h.Ops = append(h.Ops, HoldOp{Kind: "parse_hold", SQL: sql})
		}
		rule := rapid.SampledFrom([]int{0, 1, 2, 3, 12, 6, 11}).Draw(rt, "shared_rule") // rules that add nodes to the tree
		for i := 0; i < nTrees; i++ {
			h.Ops = append(h.Ops, HoldOp{Kind: "transform", Idx: i, N: rule})
		}
		for i, n := 0, rapid.IntRange(1, 5).Draw(rt, "tail"); i < n; i++ {
			k := rapid.SampledFrom([]string{"release", "transform", "pool_gets", "churn", "derive_hold"}).Draw(rt, "tailkind")
			h.Ops = append(h.Ops, HoldOp{Kind: k, SQL: "SELECT x FROM y WHERE z = 1 AND w = 2", N: rapid.IntRange(0, 16).Draw(rt, "n"), Idx: rapid.IntRange(0, nTrees-1).Draw(rt, "idx")})
		}
		hx.Case("held_values_stable", true, fmt.Sprint(h.Ops), "transform_focused")
		hx.Sample("held_values_stable", []string{"transform_focused"})
		return h
	}
	n := rapid.IntRange(2, 14).Draw(rt, "nops")
	var h HoldHistory
	var kinds []string
	nt := false
	holds := 0
	for i := 0; i < n; i++ {
		k := rapid.SampledFrom([]string{"parse_hold", "parse_hold", "tokenize_hold_put", "tokenize_hold_keep", "reuse_tokenizer", "derive_hold", "release", "release", "pool_gets", "churn", "churn_goroutines", "recovery_hold", "transform", "transform", "transform"}).Draw(rt, "kind")
		op := HoldOp{Kind: k, SQL: genHoldSQL(rt), N: rapid.IntRange(1, 20).Draw(rt, "n"), Idx: rapid.IntRange(0, 20).Draw(rt, "idx")}
		if strings.Contains(k, "hold") {
			holds++
		}
		if holds > 0 && (k == "release" || k == "transform" || ((k == "churn" || k == "churn_goroutines") && op.N >= 10) || k == "reuse_tokenizer") {
			nt = true
		}
		h.Ops = append(h.Ops, op)
		kinds = append(kinds, k)
	}
	hx.Case("held_values_stable", nt, strings.Join(kinds, ","))
	hx.Sample("held_values_stable", kinds)
	return h
}

// FuzzHoldHistory: coverage-guided search over the same generator (thorough tier).
func FuzzHoldHistory(f *testing.F) { holdCheck.Fuzz(f, genHoldHistory) }
