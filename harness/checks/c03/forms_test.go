package c03

import (
	"fmt"
	"math/big"
	"reflect"
	"strconv"
	"strings"
	"testing"

	"github.com/ajitpratap0/GoSQLX/pkg/gosqlx"
	"github.com/ajitpratap0/GoSQLX/pkg/sql/ast"
	"pgregory.net/rapid"
	"verif/gen/sqlgen"
	"verif/internal/astdump"
	"verif/internal/hx"
)

// Documented forms: statement shapes that docs/SQL_COMPATIBILITY.md lists as "Full" parser
// support and that the model grammar (G-SQL) does not draw with a prescribed tree, either
// because the parser of the tree under test rejects them (listed findings) or because they
// are plain spellings of constructs G-SQL already covers. Holes are filled with generated
// operands: {E} a value expression, {B} a condition, {T} a table name, {Q} a query, {S} a plain SELECT.
// The oracle is one-directional (accepted, one statement of the right type, every generated
// operand present in the tree with its own sub-tree): it states "never rejected, nothing lost".
var forms = []struct{ Name, Tmpl, Type string }{
	{"fetch_with_ties", "SELECT a FROM {T} ORDER BY a FETCH FIRST 5 ROWS WITH TIES", "SelectStatement"},
	{"fetch_percent", "SELECT a FROM {T} FETCH FIRST 10 PERCENT ROWS ONLY", "SelectStatement"},
	{"offset_fetch", "SELECT a FROM {T} ORDER BY ( {E} ) OFFSET 10 ROWS FETCH NEXT 5 ROWS ONLY", "SelectStatement"},
	{"truncate_cascade", "TRUNCATE TABLE {T} CASCADE", "TruncateStatement"},
	{"truncate_restart_identity", "TRUNCATE TABLE {T} RESTART IDENTITY", "TruncateStatement"},
	{"nth_value", "SELECT nth_value ( ( {E} ) , 2 ) OVER ( ORDER BY a ) FROM {T}", "SelectStatement"},
	{"first_value_frame", "SELECT first_value ( ( {E} ) ) OVER ( ORDER BY a ROWS BETWEEN UNBOUNDED PRECEDING AND UNBOUNDED FOLLOWING ) FROM {T}", "SelectStatement"},
	{"lag_lead", "SELECT lag ( a , 1 ) OVER ( ORDER BY a ) , lead ( ( {E} ) ) OVER ( PARTITION BY b ORDER BY a ) FROM {T}", "SelectStatement"},
	{"grouping_sets_combined", "SELECT a FROM {T} GROUP BY a , ROLLUP ( b , c ) HAVING ( {B} )", "SelectStatement"},
	{"grouping_sets_empty_set", "SELECT a FROM {T} GROUP BY GROUPING SETS ( ( a ) , ( a , b ) , ( ) )", "SelectStatement"},
	{"some_quantifier", "SELECT a FROM {T} WHERE ( {E} ) = SOME ( {Q} )", "SelectStatement"},
	{"full_outer_join", "SELECT a FROM {T} FULL OUTER JOIN t2 ON ( {B} )", "SelectStatement"},
	{"lateral_left_join", "SELECT a FROM {T} LEFT JOIN LATERAL ( {S} ) l ON ( {B} )", "SelectStatement"},
	{"recursive_cte", "WITH RECURSIVE c AS ( {Q} ) SELECT a FROM c WHERE ( {B} )", "SelectStatement"},
	{"aggregate_order_by", "SELECT string_agg ( a , ',' ORDER BY ( {E} ) DESC ) FROM {T}", "SelectStatement"},
	{"count_filter", "SELECT count ( * ) FILTER ( WHERE ( {B} ) ) FROM {T}", "SelectStatement"},
	{"not_between_not_in_not_like", "SELECT a FROM {T} WHERE a NOT BETWEEN 1 AND ( {E} ) AND b NOT IN ( 1 , ( {E} ) ) AND c NOT LIKE 'x%'", "SelectStatement"},
	{"in_subquery", "SELECT a FROM {T} WHERE ( {E} ) IN ( {Q} )", "SelectStatement"},
	{"nulls_ordering", "SELECT a FROM {T} ORDER BY a DESC NULLS FIRST , ( {E} ) NULLS LAST", "SelectStatement"},
	{"insert_multi_row_returning", "INSERT INTO {T} ( a , b ) VALUES ( 1 , ( {E} ) ) , ( 2 , ( {E} ) ) RETURNING a", "InsertStatement"},
	{"update_returning", "UPDATE {T} SET a = ( {E} ) WHERE ( {B} ) RETURNING *", "UpdateStatement"},
	{"delete_returning", "DELETE FROM {T} WHERE ( {B} ) RETURNING a , b", "DeleteStatement"},
	{"merge_matched_not_matched", "MERGE INTO {T} USING t2 ON ( {B} ) WHEN MATCHED THEN UPDATE SET a = ( {E} ) WHEN NOT MATCHED THEN INSERT ( a ) VALUES ( ( {E} ) )", "MergeStatement"},
	{"create_table_constraints", "CREATE TABLE {T} ( a INT PRIMARY KEY , b INT UNIQUE , c INT REFERENCES t2 ( id ) , CHECK ( {B} ) )", "CreateTableStatement"},
	{"alter_add_column", "ALTER TABLE {T} ADD COLUMN c9 INT", "AlterTableStatement"},
	{"alter_drop_column", "ALTER TABLE {T} DROP COLUMN c9", "AlterTableStatement"},
	{"create_unique_index", "CREATE UNIQUE INDEX ix_1 ON {T} ( a , b )", "CreateIndexStatement"},
	{"refresh_materialized_view", "REFRESH MATERIALIZED VIEW {T}", "RefreshMaterializedViewStatement"},
	{"json_operators", "SELECT a -> 'k' , a ->> 'k' , a #> 'p' , a #>> 'p' , a #- 'p' FROM {T} WHERE a @> ( {E} ) AND a <@ b AND a ? 'k' AND a ?| b AND a ?& b", "SelectStatement"},
	{"returning_alias", "INSERT INTO {T} ( a ) VALUES ( 1 ) RETURNING id , ( {E} ) AS amount_with_tax", "InsertStatement"}, // docs/TROUBLESHOOTING.md example
	{"limit_large_value", "SELECT a FROM {T} WHERE ( {B} ) LIMIT 123456789012 OFFSET 4294967296", "SelectStatement"},
	// listed by the documents as supported and rejected by the parser (known findings)
	{"derived_table_set_operation", "SELECT * FROM ( {S} UNION {S} ) d", "SelectStatement"},     // Table subqueries - Full
	{"update_from", "UPDATE {T} SET a = ( {E} ) FROM t2 WHERE ( {B} )", "UpdateStatement"},      // UpdateStatement.From; Multi-table UPDATE - Full
	{"delete_using", "DELETE FROM {T} USING t2 WHERE ( {B} )", "DeleteStatement"},               // API_REFERENCE: Using []TableReference
	{"update_target_alias", "UPDATE {T} AS x SET a = ( {E} ) WHERE ( {B} )", "UpdateStatement"}, // UpdateStatement.Alias
	// listed by the compatibility document as "Full" and rejected by the parser (known findings)
	{"is_true", "SELECT a FROM {T} WHERE ( {E} ) IS TRUE", "SelectStatement"},
	{"is_not_false", "SELECT a FROM {T} WHERE ( {E} ) IS NOT FALSE", "SelectStatement"},
	{"minus_set_operation", "SELECT a FROM {T} MINUS SELECT b FROM t2 WHERE ( {B} )", "SetOperation"},
	{"select_top", "SELECT TOP 5 a FROM {T} WHERE ( {B} )", "SelectStatement"},
	{"grouping_function", "SELECT GROUPING ( a ) , sum ( ( {E} ) ) FROM {T} GROUP BY ROLLUP ( a )", "SelectStatement"},
	{"update_with_join", "UPDATE {T} JOIN t2 ON ( {B} ) SET a = ( {E} )", "UpdateStatement"},
	{"update_multi_table", "UPDATE {T} , t2 SET a = ( {E} ) WHERE ( {B} )", "UpdateStatement"},
	{"delete_with_join", "DELETE t1 FROM t1 JOIN t2 ON ( {B} )", "DeleteStatement"},
	{"alter_modify_column", "ALTER TABLE {T} MODIFY COLUMN a INT", "AlterTableStatement"},
}

type FormCase struct {
	Form  string   `json:"form"`
	SQL   string   `json:"sql"`
	Type  string   `json:"statement_type"`
	Parts []string `json:"operand_trees"` // dumps of the generated operands: each must occur in the statement's dump
}

func oracleForm(c FormCase) error {
	tree, err := gosqlx.Parse(c.SQL)
	if err != nil {
		return fmt.Errorf("documented form %s rejected: %v", c.Form, firstLine(err))
	}
	if len(tree.Statements) != 1 {
		return fmt.Errorf("documented form %s: got %d statements, want 1", c.Form, len(tree.Statements))
	}
	ty := reflect.TypeOf(tree.Statements[0])
	for ty.Kind() == reflect.Ptr {
		ty = ty.Elem()
	}
	// ALTER TABLE is AlterStatement or AlterTableStatement depending on the tree under test
	if ty.Name() != c.Type && !(strings.HasPrefix(c.Type, "Alter") && strings.HasPrefix(ty.Name(), "Alter")) {
		return fmt.Errorf("documented form %s parsed into a %s, want %s", c.Form, ty.Name(), c.Type)
	}
	got := astdump.Dump(tree.Statements[0])
	for _, p := range c.Parts {
		if !strings.Contains(got, p) {
			return fmt.Errorf("documented form %s: a written operand is not in the tree: %s\n tree: %s", c.Form, p, got)
		}
	}
	return nil
}

var formCheck = hx.NewCheck("documented_forms", oracleForm)

// fill replaces the holes of a template left to right.
func fill(g *sqlgen.G, tmpl string) (string, []string) {
	var parts []string
	var b strings.Builder
	for {
		i := strings.IndexByte(tmpl, '{')
		if i < 0 {
			b.WriteString(tmpl)
			break
		}
		b.WriteString(tmpl[:i])
		switch tmpl[i : i+3] {
		case "{E}":
			x := g.Value()
			b.WriteString(sqlgen.SQL(x.T))
			parts = append(parts, astdump.Dump(x.N))
		case "{B}":
			x := g.Bool()
			b.WriteString(sqlgen.SQL(x.T))
			parts = append(parts, astdump.Dump(x.N))
		case "{Q}":
			g.ForceFrom = true
			t, n := g.Query(true)
			g.ForceFrom = false
			b.WriteString(sqlgen.SQL(t))
			parts = append(parts, astdump.Dump(n))
		case "{S}": // a plain SELECT (derived tables take no set operation)
			t, n := g.Select(true, true)
			b.WriteString(sqlgen.SQL(t))
			parts = append(parts, astdump.Dump(n))
		case "{T}":
			src, _ := g.TableName()
			b.WriteString(src)
		}
		tmpl = tmpl[i+3:]
	}
	return b.String(), parts
}

func formFeatures() sqlgen.Features {
	f := features()
	f.MaxDepth = 2
	return f
}

func genDocumentedForms(rt *rapid.T) FormCase {
	var allowed []int
	for i, f := range forms {
		if hx.Allowed("c03.form." + f.Name) {
			allowed = append(allowed, i)
		}
	}
	f := forms[allowed[rapid.IntRange(0, len(allowed)-1).Draw(rt, "form")]]
	sql, parts := fill(sqlgen.New(rt, formFeatures()), f.Tmpl)
	hx.Case("documented_forms", len(parts) > 0 && len(sql) > len(f.Tmpl)+8, f.Name+fmt.Sprint(len(sql)/8), "form_"+f.Name)
	hx.Sample("documented_forms", sql)
	return FormCase{Form: f.Name, SQL: sql, Type: f.Type, Parts: parts}
}

func TestDocumentedForms(t *testing.T) {
	hx.Rule("documented_forms", "statement shapes docs/SQL_COMPATIBILITY.md lists with full parser support (45 templates) with generated value / condition / query / table-name operands in their holes; gosqlx.Parse must accept, return one statement of the expected type, and the tree must contain the sub-tree of every generated operand; non-trivial = at least one non-leaf operand; distinct = template + size class")
	formCheck.Rapid(t, hx.N(40000, 400000), genDocumentedForms)
}

// FuzzDocumentedForms: coverage-guided search over the same generator (thorough tier).
func FuzzDocumentedForms(f *testing.F) { formCheck.Fuzz(f, genDocumentedForms) }

// ---------------------------------------------------------------- row-count literals

// LimitCase: a SELECT whose LIMIT / OFFSET / FETCH counts are written in a drawn numeric spelling.
type LimitCase struct {
	SQL    string `json:"sql"`
	Limit  string `json:"limit"` // the literals as written ("" = clause absent)
	Offset string `json:"offset"`
	Fetch  string `json:"fetch"`
}

// plainInt: decimal digits only and within the int64 range: such a count must be accepted
func plainInt(s string) (int64, bool) {
	if s == "" {
		return 0, false
	}
	for _, r := range s {
		if r < '0' || r > '9' {
			return 0, false
		}
	}
	v, err := strconv.ParseInt(s, 10, 64)
	return v, err == nil
}

func sameNumber(written string, got int64) bool {
	w, _, err := big.ParseFloat(written, 10, 200, big.ToNearestEven)
	if err != nil {
		return false
	}
	return w.Cmp(new(big.Float).SetInt64(got)) == 0
}

func oracleLimit(c LimitCase) error {
	tree, err := gosqlx.Parse(c.SQL)
	if err != nil {
		for _, w := range []string{c.Limit, c.Offset, c.Fetch} {
			if _, ok := plainInt(w); !ok && w != "" {
				return nil // a count that is not a plain integer may be rejected
			}
		}
		return fmt.Errorf("a SELECT with plain integer row counts is rejected: %v", firstLine(err))
	}
	sel, ok := tree.Statements[0].(*ast.SelectStatement)
	if !ok || len(tree.Statements) != 1 {
		return fmt.Errorf("parsed into %d statements / %T", len(tree.Statements), tree.Statements[0])
	}
	check := func(name, written string, got *int64) error {
		if written == "" {
			return nil
		}
		if got == nil {
			return fmt.Errorf("%s %s is written but the tree has no %s", name, written, name)
		}
		if !sameNumber(written, *got) {
			return fmt.Errorf("%s is written %s but the tree holds %d", name, written, *got)
		}
		return nil
	}
	conv := func(p *int) *int64 {
		if p == nil {
			return nil
		}
		v := int64(*p)
		return &v
	}
	if err := check("LIMIT", c.Limit, conv(sel.Limit)); err != nil {
		return err
	}
	if err := check("OFFSET", c.Offset, conv(sel.Offset)); err != nil {
		return err
	}
	var fv *int64
	if sel.Fetch != nil {
		fv = sel.Fetch.FetchValue
	}
	return check("FETCH", c.Fetch, fv)
}

var limitCheck = hx.NewCheck("row_count_literals", oracleLimit)

func genRowCountLiterals(rt *rapid.T) LimitCase {
	num := func(label string) string {
		return rapid.SampledFrom([]string{"0", "1", "7", "100", "2147483648", "123456789012", "9223372036854775807", "9223372036854775808", "18446744073709551615",
			"1e3", "2.5", "1.0", "2.7", "1E2", "007", "10.5e1"}).Draw(rt, label)
	}
	c := LimitCase{}
	sql := "SELECT a FROM t1 ORDER BY a"
	switch rapid.IntRange(0, 2).Draw(rt, "shape") {
	case 0:
		c.Limit = num("limit")
		sql += " LIMIT " + c.Limit
		if rapid.Bool().Draw(rt, "withoffset") {
			c.Offset = num("offset")
			sql += " OFFSET " + c.Offset
		}
	case 1:
		c.Offset = num("offset")
		c.Fetch = num("fetch")
		sql += " OFFSET " + c.Offset + " ROWS FETCH NEXT " + c.Fetch + " ROWS ONLY"
	default:
		c.Fetch = num("fetch")
		sql += " FETCH FIRST " + c.Fetch + " ROWS ONLY"
	}
	c.SQL = sql
	_, plain := plainInt(c.Limit + c.Offset + c.Fetch)
	hx.Case("row_count_literals", !plain, sql, map[bool]string{true: "plain_integers", false: "other_numeric_spelling"}[plain])
	hx.Sample("row_count_literals", sql)
	return c
}

func TestRowCountLiterals(t *testing.T) {
	hx.Rule("row_count_literals", "SELECT with LIMIT / OFFSET / FETCH counts in drawn numeric spellings (plain integers up to and beyond the int64 range, decimals, exponents, leading zeros); plain integers within int64 must be accepted; whenever the statement is accepted the counts in the tree must equal the written numbers exactly; non-trivial = some count is not a plain integer; distinct = statement text")
	limitCheck.Rapid(t, hx.N(4000, 20000), genRowCountLiterals)
}
