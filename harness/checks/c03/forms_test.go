package c03

import (
	"fmt"
	"reflect"
	"strings"
	"testing"

	"github.com/ajitpratap0/GoSQLX/pkg/gosqlx"
	"pgregory.net/rapid"
	"verif/gen/sqlgen"
	"verif/internal/astdump"
	"verif/internal/hx"
)

// Documented forms: statement shapes that docs/SQL_COMPATIBILITY.md lists as "Full" parser
// support and that the model grammar (G-SQL) does not draw with a prescribed tree, either
// because the parser of the tree under test rejects them (listed findings) or because they
// are plain spellings of constructs G-SQL already covers. Holes are filled with generated
// operands: {E} a value expression, {B} a condition, {T} a table name, {Q} a query, {S} a plain SELECT.
// The oracle is one-directional (accepted, one statement of the right type, every generated
// operand present in the tree with its own sub-tree): it states "never rejected, nothing lost".
var forms = []struct{ Name, Tmpl, Type string }{
	{"fetch_with_ties", "SELECT a FROM {T} ORDER BY a FETCH FIRST 5 ROWS WITH TIES", "SelectStatement"},
	{"fetch_percent", "SELECT a FROM {T} FETCH FIRST 10 PERCENT ROWS ONLY", "SelectStatement"},
	{"offset_fetch", "SELECT a FROM {T} ORDER BY ( {E} ) OFFSET 10 ROWS FETCH NEXT 5 ROWS ONLY", "SelectStatement"},
	{"truncate_cascade", "TRUNCATE TABLE {T} CASCADE", "TruncateStatement"},
	{"truncate_restart_identity", "TRUNCATE TABLE {T} RESTART IDENTITY", "TruncateStatement"},
	{"nth_value", "SELECT nth_value ( ( {E} ) , 2 ) OVER ( ORDER BY a ) FROM {T}", "SelectStatement"},
	{"first_value_frame", "SELECT first_value ( ( {E} ) ) OVER ( ORDER BY a ROWS BETWEEN UNBOUNDED PRECEDING AND UNBOUNDED FOLLOWING ) FROM {T}", "SelectStatement"},
	{"lag_lead", "SELECT lag ( a , 1 ) OVER ( ORDER BY a ) , lead ( ( {E} ) ) OVER ( PARTITION BY b ORDER BY a ) FROM {T}", "SelectStatement"},
	{"grouping_sets_combined", "SELECT a FROM {T} GROUP BY a , ROLLUP ( b , c ) HAVING ( {B} )", "SelectStatement"},
	{"grouping_sets_empty_set", "SELECT a FROM {T} GROUP BY GROUPING SETS ( ( a ) , ( a , b ) , ( ) )", "SelectStatement"},
	{"some_quantifier", "SELECT a FROM {T} WHERE ( {E} ) = SOME ( {Q} )", "SelectStatement"},
	{"full_outer_join", "SELECT a FROM {T} FULL OUTER JOIN t2 ON ( {B} )", "SelectStatement"},
	{"lateral_left_join", "SELECT a FROM {T} LEFT JOIN LATERAL ( {S} ) l ON ( {B} )", "SelectStatement"},
	{"recursive_cte", "WITH RECURSIVE c AS ( {Q} ) SELECT a FROM c WHERE ( {B} )", "SelectStatement"},
	{"aggregate_order_by", "SELECT string_agg ( a , ',' ORDER BY ( {E} ) DESC ) FROM {T}", "SelectStatement"},
	{"count_filter", "SELECT count ( * ) FILTER ( WHERE ( {B} ) ) FROM {T}", "SelectStatement"},
	{"not_between_not_in_not_like", "SELECT a FROM {T} WHERE a NOT BETWEEN 1 AND ( {E} ) AND b NOT IN ( 1 , ( {E} ) ) AND c NOT LIKE 'x%'", "SelectStatement"},
	{"in_subquery", "SELECT a FROM {T} WHERE ( {E} ) IN ( {Q} )", "SelectStatement"},
	{"nulls_ordering", "SELECT a FROM {T} ORDER BY a DESC NULLS FIRST , ( {E} ) NULLS LAST", "SelectStatement"},
	{"insert_multi_row_returning", "INSERT INTO {T} ( a , b ) VALUES ( 1 , ( {E} ) ) , ( 2 , ( {E} ) ) RETURNING a", "InsertStatement"},
	{"update_returning", "UPDATE {T} SET a = ( {E} ) WHERE ( {B} ) RETURNING *", "UpdateStatement"},
	{"delete_returning", "DELETE FROM {T} WHERE ( {B} ) RETURNING a , b", "DeleteStatement"},
	{"merge_matched_not_matched", "MERGE INTO {T} USING t2 ON ( {B} ) WHEN MATCHED THEN UPDATE SET a = ( {E} ) WHEN NOT MATCHED THEN INSERT ( a ) VALUES ( ( {E} ) )", "MergeStatement"},
	{"create_table_constraints", "CREATE TABLE {T} ( a INT PRIMARY KEY , b INT UNIQUE , c INT REFERENCES t2 ( id ) , CHECK ( {B} ) )", "CreateTableStatement"},
	{"alter_add_column", "ALTER TABLE {T} ADD COLUMN c9 INT", "AlterTableStatement"},
	{"alter_drop_column", "ALTER TABLE {T} DROP COLUMN c9", "AlterTableStatement"},
	{"create_unique_index", "CREATE UNIQUE INDEX ix_1 ON {T} ( a , b )", "CreateIndexStatement"},
	{"refresh_materialized_view", "REFRESH MATERIALIZED VIEW {T}", "RefreshMaterializedViewStatement"},
	{"json_operators", "SELECT a -> 'k' , a ->> 'k' , a #> 'p' , a #>> 'p' , a #- 'p' FROM {T} WHERE a @> ( {E} ) AND a <@ b AND a ? 'k' AND a ?| b AND a ?& b", "SelectStatement"},
	// listed by the compatibility document as "Full" and rejected by the parser (known findings)
	{"is_true", "SELECT a FROM {T} WHERE ( {E} ) IS TRUE", "SelectStatement"},
	{"is_not_false", "SELECT a FROM {T} WHERE ( {E} ) IS NOT FALSE", "SelectStatement"},
	{"minus_set_operation", "SELECT a FROM {T} MINUS SELECT b FROM t2 WHERE ( {B} )", "SetOperation"},
	{"select_top", "SELECT TOP 5 a FROM {T} WHERE ( {B} )", "SelectStatement"},
	{"grouping_function", "SELECT GROUPING ( a ) , sum ( ( {E} ) ) FROM {T} GROUP BY ROLLUP ( a )", "SelectStatement"},
	{"update_with_join", "UPDATE {T} JOIN t2 ON ( {B} ) SET a = ( {E} )", "UpdateStatement"},
	{"update_multi_table", "UPDATE {T} , t2 SET a = ( {E} ) WHERE ( {B} )", "UpdateStatement"},
	{"delete_with_join", "DELETE t1 FROM t1 JOIN t2 ON ( {B} )", "DeleteStatement"},
	{"alter_modify_column", "ALTER TABLE {T} MODIFY COLUMN a INT", "AlterTableStatement"},
}

type FormCase struct {
	Form  string   `json:"form"`
	SQL   string   `json:"sql"`
	Type  string   `json:"statement_type"`
	Parts []string `json:"operand_trees"` // dumps of the generated operands: each must occur in the statement's dump
}

func oracleForm(c FormCase) error {
	tree, err := gosqlx.Parse(c.SQL)
	if err != nil {
		return fmt.Errorf("documented form %s rejected: %v", c.Form, firstLine(err))
	}
	if len(tree.Statements) != 1 {
		return fmt.Errorf("documented form %s: got %d statements, want 1", c.Form, len(tree.Statements))
	}
	ty := reflect.TypeOf(tree.Statements[0])
	for ty.Kind() == reflect.Ptr {
		ty = ty.Elem()
	}
	// ALTER TABLE is AlterStatement or AlterTableStatement depending on the tree under test
	if ty.Name() != c.Type && !(strings.HasPrefix(c.Type, "Alter") && strings.HasPrefix(ty.Name(), "Alter")) {
		return fmt.Errorf("documented form %s parsed into a %s, want %s", c.Form, ty.Name(), c.Type)
	}
	got := astdump.Dump(tree.Statements[0])
	for _, p := range c.Parts {
		if !strings.Contains(got, p) {
			return fmt.Errorf("documented form %s: a written operand is not in the tree: %s\n tree: %s", c.Form, p, got)
		}
	}
	return nil
}

var formCheck = hx.NewCheck("documented_forms", oracleForm)

// fill replaces the holes of a template left to right.
func fill(g *sqlgen.G, tmpl string) (string, []string) {
	var parts []string
	var b strings.Builder
	for {
		i := strings.IndexByte(tmpl, '{')
		if i < 0 {
			b.WriteString(tmpl)
			break
		}
		b.WriteString(tmpl[:i])
		switch tmpl[i : i+3] {
		case "{E}":
			x := g.Value()
			b.WriteString(sqlgen.SQL(x.T))
			parts = append(parts, astdump.Dump(x.N))
		case "{B}":
			x := g.Bool()
			b.WriteString(sqlgen.SQL(x.T))
			parts = append(parts, astdump.Dump(x.N))
		case "{Q}":
			g.ForceFrom = true
			t, n := g.Query(true)
			g.ForceFrom = false
			b.WriteString(sqlgen.SQL(t))
			parts = append(parts, astdump.Dump(n))
		case "{S}": // a plain SELECT (derived tables take no set operation)
			t, n := g.Select(true, true)
			b.WriteString(sqlgen.SQL(t))
			parts = append(parts, astdump.Dump(n))
		case "{T}":
			src, _ := g.TableName()
			b.WriteString(src)
		}
		tmpl = tmpl[i+3:]
	}
	return b.String(), parts
}

func formFeatures() sqlgen.Features {
	f := features()
	f.MaxDepth = 2
	return f
}

func genDocumentedForms(rt *rapid.T) FormCase {
	var allowed []int
	for i, f := range forms {
		if hx.Allowed("c03.form." + f.Name) {
			allowed = append(allowed, i)
		}
	}
	f := forms[allowed[rapid.IntRange(0, len(allowed)-1).Draw(rt, "form")]]
	sql, parts := fill(sqlgen.New(rt, formFeatures()), f.Tmpl)
	hx.Case("documented_forms", len(parts) > 0 && len(sql) > len(f.Tmpl)+8, f.Name+fmt.Sprint(len(sql)/8), "form_"+f.Name)
	hx.Sample("documented_forms", sql)
	return FormCase{Form: f.Name, SQL: sql, Type: f.Type, Parts: parts}
}

func TestDocumentedForms(t *testing.T) {
	hx.Rule("documented_forms", "statement shapes docs/SQL_COMPATIBILITY.md lists with full parser support (39 templates) with generated value / condition / query / table-name operands in their holes; gosqlx.Parse must accept, return one statement of the expected type, and the tree must contain the sub-tree of every generated operand; non-trivial = at least one non-leaf operand; distinct = template + size class")
	formCheck.Rapid(t, hx.N(40000, 400000), genDocumentedForms)
}

// FuzzDocumentedForms: coverage-guided search over the same generator (thorough tier).
func FuzzDocumentedForms(f *testing.F) { formCheck.Fuzz(f, genDocumentedForms) }
