package c03

import (
	"fmt"
	"strings"
	"testing"

	"github.com/ajitpratap0/GoSQLX/pkg/sql/ast"
	"verif/internal/astdump"
	"verif/internal/hx"
)

// Exhaustive operator table: every sequence of one, two and three standard binary operators over
// plain operands, bare and with the two parenthesisations of a pair, with NOT in front of the
// first comparison-level operand or after the first AND/OR, and with a unary minus on the first
// or last operand. The prescribed tree comes from an independent precedence-climbing reference
// (OR < AND < NOT < comparison/LIKE < || < + - < * / %, binary operators left-associative,
// comparisons non-associative, parentheses override) and is compared with the parser's tree by
// the tree_is_prescribed oracle.

type opInfo struct {
	text string
	prec int
}

var tableOps = []opInfo{
	{"OR", 1}, {"AND", 2},
	{"=", 4}, {"<>", 4}, {"!=", 4}, {"<", 4}, {"<=", 4}, {">", 4}, {">=", 4}, {"LIKE", 4},
	{"||", 5}, {"+", 6}, {"-", 6}, {"*", 7}, {"/", 7}, {"%", 7},
}

const precCmp = 4

type refParser struct {
	toks    []string
	pos     int
	chained bool // a comparison directly over a comparison: no prescribed reading, skip
}

func (r *refParser) peek() string {
	if r.pos < len(r.toks) {
		return r.toks[r.pos]
	}
	return ""
}

func precOf(t string) int {
	for _, o := range tableOps {
		if o.text == t {
			return o.prec
		}
	}
	return 0
}

func isCmp(e ast.Expression) bool {
	b, ok := e.(*ast.BinaryExpression)
	return ok && precOf(b.Operator) == precCmp
}

func (r *refParser) expr(min int) ast.Expression {
	left := r.unary()
	for {
		op := r.peek()
		p := precOf(op)
		if p == 0 || p < min {
			return left
		}
		r.pos++
		right := r.expr(p + 1)
		if p == precCmp && (isCmp(left) || isCmp(right)) {
			r.chained = true
		}
		left = &ast.BinaryExpression{Left: left, Operator: op, Right: right}
	}
}

func (r *refParser) unary() ast.Expression {
	switch r.peek() {
	case "NOT":
		r.pos++
		return &ast.UnaryExpression{Operator: ast.Not, Expr: r.expr(precCmp)}
	case "-":
		r.pos++
		return &ast.UnaryExpression{Operator: ast.Minus, Expr: r.unary()}
	case "(":
		r.pos++
		e := r.expr(1)
		r.pos++ // )
		if b, ok := e.(*ast.BinaryExpression); ok {
			// a copy, so that isCmp of the parenthesised operand is decided on the wrapper below
			return &parenBinary{*b}
		}
		return e
	}
	t := r.toks[r.pos]
	r.pos++
	return &ast.Identifier{Name: t}
}

// parenBinary is a BinaryExpression that was written in parentheses; unwrap() removes the marker.
type parenBinary struct{ ast.BinaryExpression }

func unwrap(e ast.Expression) ast.Expression {
	switch v := e.(type) {
	case *parenBinary:
		b := v.BinaryExpression
		b.Left, b.Right = unwrap(b.Left), unwrap(b.Right)
		return &b
	case *ast.BinaryExpression:
		v.Left, v.Right = unwrap(v.Left), unwrap(v.Right)
		return v
	case *ast.UnaryExpression:
		v.Expr = unwrap(v.Expr)
		return v
	}
	return e
}

func tableCase(toks []string) (TreeCase, bool) {
	r := &refParser{toks: toks}
	e := r.expr(1)
	if r.chained || r.pos != len(toks) {
		return TreeCase{}, false
	}
	stmt := &ast.SelectStatement{Columns: []ast.Expression{unwrap(e)}}
	return TreeCase{SQL: "SELECT " + strings.Join(toks, " "), Want: astdump.Dump(stmt)}, true
}

func TestOperatorTable(t *testing.T) {
	if hx.Shard() != 0 {
		t.Skip("enumeration runs on shard 0 only")
	}
	hx.Rule("operator_table", "every sequence of 1-3 standard binary operators (OR AND = <> != < <= > >= LIKE || + - * / %) over plain operands, bare, with both parenthesisations of each pair, with NOT before the first operand or after the first AND/OR, and with a unary minus on the first or last operand (enumerated exhaustively); the prescribed tree comes from an independent precedence-climbing reference; sequences that chain two comparisons are skipped (no prescribed reading); same oracle as tree_is_prescribed")
	names := []string{"a", "b", "c", "d"}
	n, skipped := 0, 0
	emit := func(toks []string, class string) {
		c, ok := tableCase(toks)
		if !ok {
			skipped++
			return
		}
		n++
		hx.Case("operator_table", true, c.SQL, class)
		if n%997 == 0 {
			hx.Sample("operator_table", c.SQL)
		}
		treeCheck.One(t, c)
	}
	var rec func(seq []int)
	rec = func(seq []int) {
		if len(seq) > 0 {
			var base []string
			for i, oi := range seq {
				base = append(base, names[i], tableOps[oi].text)
			}
			base = append(base, names[len(seq)])
			emit(base, "bare")
			emit(append([]string{"NOT"}, base...), "not_first")
			emit(append([]string{"-"}, base...), "minus_first")
			last := append(append([]string{}, base[:len(base)-1]...), "-", base[len(base)-1])
			emit(last, "minus_last")
			for i, oi := range seq {
				if tableOps[oi].prec <= 2 { // NOT after the first AND/OR
					w := append(append(append([]string{}, base[:2*i+2]...), "NOT"), base[2*i+2:]...)
					emit(w, "not_after_logical")
					break
				}
			}
			if len(seq) == 2 {
				emit([]string{"(", "a", tableOps[seq[0]].text, "b", ")", tableOps[seq[1]].text, "c"}, "paren_left")
				emit([]string{"a", tableOps[seq[0]].text, "(", "b", tableOps[seq[1]].text, "c", ")"}, "paren_right")
			}
		}
		if len(seq) == 3 {
			return
		}
		for oi := range tableOps {
			rec(append(append([]int{}, seq...), oi))
		}
	}
	rec(nil)
	hx.Exhaustive("operator_table", true)
	hx.Note("operator_table", fmt.Sprintf("%d cases enumerated, %d sequences skipped (they chain two comparisons)", n, skipped))
	t.Logf("operator table: %d cases, %d skipped (chained comparisons)", n, skipped)
}
