package c03

import (
	"fmt"
	"sort"
	"strings"
	"testing"

	"github.com/ajitpratap0/GoSQLX/pkg/gosqlx"
	"pgregory.net/rapid"
	"verif/gen/sqlgen"
	"verif/internal/astdump"
	"verif/internal/hx"
)

func TestMain(m *testing.M) { hx.Main(m, "C03") }

// TreeCase: a statement text and the dump of the tree the grammar prescribes.
type TreeCase struct {
	SQL  string `json:"sql"`
	Want string `json:"want"`
}

func features() sqlgen.Features {
	f := sqlgen.AllFeatures()
	f.CmpRhsArith = hx.Allowed("c03.cmp_rhs_arith")
	f.UnaryMinus = hx.Allowed("c03.unary_minus")
	f.LowerCompound = hx.Allowed("c03.lowercase_compound_keyword")
	f.QuantifierCase = hx.Allowed("c03.quantifier_case")
	f.Merge = hx.Allowed("c03.merge")
	f.DDL = hx.Allowed("c03.ddl")
	f.QuotedDDLNames = hx.Allowed("c03.ddl_quoted_names")
	f.IndexNulls = hx.Allowed("c03.index_nulls")
	f.DDLExtras = hx.Allowed("c03.ddl_extras")
	f.Alter = hx.Allowed("c03.alter_table")
	f.AlterQualified = hx.Allowed("c03.alter_qualified_table")
	f.MySQL = hx.Allowed("c03.mysql_forms")
	f.Partitions = hx.Allowed("c03.partitions")
	f.QuotedOddNames, f.QuotedDotName, f.QuotedDigitsName = true, true, true
	f.Corners = true
	f.ReturningAlias = true
	f.IntersectPrecedence = hx.Allowed("c03.intersect_precedence")
	return f
}

func oracleTree(c TreeCase) error {
	tree, err := gosqlx.Parse(c.SQL)
	if err != nil {
		return fmt.Errorf("statement of the documented surface rejected: %v", firstLine(err))
	}
	if len(tree.Statements) != 1 {
		return fmt.Errorf("got %d statements, want 1", len(tree.Statements))
	}
	got := astdump.Dump(tree.Statements[0])
	if got != c.Want {
		return fmt.Errorf("tree differs from the prescribed one: %s", astdump.Diff(got, c.Want))
	}
	return nil
}

func firstLine(err error) string {
	s := err.Error()
	if i := strings.IndexByte(s, '\n'); i >= 0 {
		s = s[:i]
	}
	return s
}

var treeCheck = hx.NewCheck("tree_is_prescribed", oracleTree)

func init() {
	// --mkcase: the prescribed tree of a hand-written regression input is the one
	// the (repaired) parser returns now; used only for "fixed" records.
	hx.RegisterMaker("tree_is_prescribed", func(sql string) (interface{}, error) {
		tree, err := gosqlx.Parse(sql)
		if err != nil {
			return nil, err
		}
		return TreeCase{SQL: sql, Want: astdump.Dump(tree.Statements[0])}, nil
	})
}

func classes(st sqlgen.Stmt) (bool, string, []string) {
	var cl []string
	for k := range st.Stats {
		cl = append(cl, k)
	}
	sort.Strings(cl)
	nontrivial := st.Stats["required_paren"] > 0 || st.Stats["scalar_subquery"]+st.Stats["in_subquery"]+st.Stats["exists"]+st.Stats["not_exists"]+st.Stats["derived_table"]+st.Stats["with"] > 0 ||
		(st.Stats["arith"] > 0 && st.Stats["logical_AND"]+st.Stats["logical_OR"] > 0) || len(cl) >= 6
	return nontrivial, st.Kind + "|" + strings.Join(cl, ","), cl
}

func TestTreeIsPrescribed(t *testing.T) {
	hx.Rule("tree_is_prescribed", "G-SQL statements (model tree drawn first, text rendered with required and random redundant parentheses and random keyword case); gosqlx.Parse must accept and the tree must dump equal to the model tree; non-trivial = needs a precedence parenthesis, or has a nested query, or mixes arithmetic with AND/OR, or uses >= 6 grammar features; distinct = statement kind + feature set + shape hash")
	gen := genTreeIsPrescribed
	if hx.Surveying() {
		treeCheck.Survey(t, 40000, gen, func(c TreeCase) int { return len(c.SQL) }, func(err error) string {
			s := err.Error()
			if len(s) > 110 {
				s = s[:110]
			}
			return s
		})
		return
	}
	treeCheck.Rapid(t, hx.N(120000, 1200000), gen)
}

// genTreeIsPrescribed is the case generator of treeCheck (shared by the rapid run and the native fuzz target).
func genTreeIsPrescribed(rt *rapid.T) TreeCase {
	g := sqlgen.New(rt, features())
	st := sqlgen.Statement(g)
	sql := sqlgen.SQL(st.Toks)
	nt, key, cl := classes(st)
	if !hx.Surveying() {
		hx.Case("tree_is_prescribed", nt, key+fmt.Sprint(len(st.Toks)), append(cl, "kind_"+st.Kind)...)
		hx.Sample("tree_is_prescribed", sql)
	}
	return TreeCase{SQL: sql, Want: astdump.Dump(st.Node)}
}

// FuzzTreeIsPrescribed: coverage-guided search over the same generator (thorough tier).
func FuzzTreeIsPrescribed(f *testing.F) { treeCheck.Fuzz(f, genTreeIsPrescribed) }
