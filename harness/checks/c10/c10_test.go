package c10

import (
	"context"
	"fmt"
	"os"
	"runtime"
	"sort"
	"strings"
	"sync"
	"sync/atomic"
	"testing"
	"time"

	goerrors "github.com/ajitpratap0/GoSQLX/pkg/errors"
	"github.com/ajitpratap0/GoSQLX/pkg/formatter"
	"github.com/ajitpratap0/GoSQLX/pkg/gosqlx"
	"github.com/ajitpratap0/GoSQLX/pkg/linter"
	lkw "github.com/ajitpratap0/GoSQLX/pkg/linter/rules/keywords"
	"github.com/ajitpratap0/GoSQLX/pkg/linter/rules/style"
	"github.com/ajitpratap0/GoSQLX/pkg/linter/rules/whitespace"
	"github.com/ajitpratap0/GoSQLX/pkg/metrics"
	"github.com/ajitpratap0/GoSQLX/pkg/models"
	"github.com/ajitpratap0/GoSQLX/pkg/sql/ast"
	"github.com/ajitpratap0/GoSQLX/pkg/sql/keywords"
	"github.com/ajitpratap0/GoSQLX/pkg/sql/parser"
	"github.com/ajitpratap0/GoSQLX/pkg/sql/security"
	"github.com/ajitpratap0/GoSQLX/pkg/sql/tokenizer"
	"pgregory.net/rapid"
	"verif/gen/bytegen"
	"verif/gen/corrupt"
	"verif/gen/sqlgen"
	"verif/internal/astdump"
	"verif/internal/cctx"
	"verif/internal/hx"
)

func TestMain(m *testing.M) {
	// a race report must end the child at once with a recognisable status
	if os.Getenv("GORACE") == "" {
		os.Setenv("GORACE", "halt_on_error=1 exitcode=66")
	}
	hx.MainContained(m, "C10")
}

// ---------------------------------------------------------------- operations

func errText(err error) string {
	if err == nil {
		return "<nil>"
	}
	return "ERR: " + err.Error()
}

func tokDump(toks []models.TokenWithSpan) string {
	var sb strings.Builder
	for _, t := range toks {
		fmt.Fprintf(&sb, "%d:%q@%d:%d-%d:%d ", t.Token.Type, t.Token.Value, t.Start.Line, t.Start.Column, t.End.Line, t.End.Column)
	}
	return sb.String()
}

func cliRules() []linter.Rule {
	return []linter.Rule{
		whitespace.NewTrailingWhitespaceRule(), whitespace.NewMixedIndentationRule(), whitespace.NewConsecutiveBlankLinesRule(1),
		whitespace.NewIndentationDepthRule(4, 4), whitespace.NewLongLinesRule(100), whitespace.NewRedundantWhitespaceRule(),
		style.NewColumnAlignmentRule(), style.NewCommaPlacementRule(style.CommaTrailing), style.NewAliasingConsistencyRule(true),
		lkw.NewKeywordCaseRule(lkw.CaseUpper),
	}
}

type op struct {
	name string
	run  func(in string) string
	// pure: the result is a function of the input alone and is compared with the sequential answer
	pure bool
}

var ops = []op{
	{"tokenize", func(in string) string {
		z := tokenizer.GetTokenizer()
		defer tokenizer.PutTokenizer(z)
		t, err := z.Tokenize([]byte(in))
		if err != nil {
			return errText(err)
		}
		return tokDump(t)
	}, true},
	{"tokenize_ctx_mysql", func(in string) string {
		z, err := tokenizer.NewWithDialect(keywords.DialectMySQL)
		if err != nil {
			return errText(err)
		}
		t, err := z.TokenizeContext(context.Background(), []byte(in))
		if err != nil {
			return errText(err)
		}
		return tokDump(t)
	}, true},
	{"gosqlx.Parse", func(in string) string {
		t, err := gosqlx.Parse(in)
		if err != nil {
			return errText(err)
		}
		defer ast.ReleaseAST(t)
		return astdump.Dump(t.Statements)
	}, true},
	{"parser.ParseBytes", func(in string) string {
		t, err := parser.ParseBytes([]byte(in))
		if err != nil {
			return errText(err)
		}
		defer ast.ReleaseAST(t)
		return astdump.Dump(t.Statements)
	}, true},
	{"pooled parser", func(in string) string {
		z := tokenizer.GetTokenizer()
		toks, err := z.Tokenize([]byte(in))
		tokenizer.PutTokenizer(z)
		if err != nil {
			return errText(err)
		}
		p := parser.GetParser()
		defer parser.PutParser(p)
		t, err := p.ParseFromModelTokensWithPositions(toks)
		if err != nil {
			return errText(err)
		}
		return astdump.Dump(t.Statements)
	}, true},
	{"gosqlx.Validate", func(in string) string { return errText(gosqlx.Validate(in)) }, true},
	{"parser.Validate", func(in string) string { return errText(parser.Validate(in)) }, true},
	{"gosqlx.ParseWithRecovery", func(in string) string {
		st, errs := gosqlx.ParseWithRecovery(in)
		var sb strings.Builder
		sb.WriteString(astdump.Dump(st))
		for _, e := range errs {
			sb.WriteString("|" + errText(e))
		}
		return sb.String()
	}, true},
	{"gosqlx.Format", func(in string) string {
		s, err := gosqlx.Format(in, gosqlx.FormatOptions{IndentSize: 2, UppercaseKeywords: true})
		if err != nil {
			return errText(err)
		}
		return s
	}, true},
	{"formatter.Format", func(in string) string {
		s, err := formatter.New(formatter.Options{Uppercase: true}).Format(in)
		if err != nil {
			return errText(err)
		}
		return s
	}, true},
	{"AST.SQL+Format", func(in string) string {
		t, err := gosqlx.Parse(in)
		if err != nil {
			return errText(err)
		}
		defer ast.ReleaseAST(t)
		return t.SQL() + "\n" + t.Format(ast.FormatOptions{IndentWidth: 2, NewlinePerClause: true, KeywordCase: ast.KeywordUpper})
	}, true},
	{"extract", func(in string) string {
		t, err := gosqlx.Parse(in)
		if err != nil {
			return errText(err)
		}
		defer ast.ReleaseAST(t)
		a, b, c := gosqlx.ExtractTables(t), gosqlx.ExtractColumns(t), gosqlx.ExtractFunctions(t)
		sort.Strings(a)
		sort.Strings(b)
		sort.Strings(c)
		m := gosqlx.ExtractMetadata(t)
		return fmt.Sprint(a, b, c, len(m.Tables), len(m.Columns), len(m.Functions))
	}, true},
	{"scan", func(in string) string {
		r := security.NewScanner().ScanSQL(in)
		var f []string
		for _, x := range r.Findings {
			f = append(f, fmt.Sprintf("%v/%v/%s", x.Severity, x.Pattern, x.Description))
		}
		sort.Strings(f)
		return fmt.Sprint(r.TotalCount, f)
	}, true},
	{"scan_tree", func(in string) string {
		t, err := gosqlx.Parse(in)
		if err != nil {
			return errText(err)
		}
		defer ast.ReleaseAST(t)
		r := security.NewScanner().Scan(t)
		var f []string
		for _, x := range r.Findings {
			f = append(f, fmt.Sprintf("%v/%v/%s", x.Severity, x.Pattern, x.Description))
		}
		sort.Strings(f)
		return fmt.Sprint(r.TotalCount, f)
	}, true},
	{"lint", func(in string) string {
		r := linter.New(cliRules()...).LintString(in, "x.sql")
		var f []string
		for _, v := range r.Violations {
			f = append(f, fmt.Sprintf("%s@%d:%d", v.Rule, v.Location.Line, v.Location.Column))
		}
		return strings.Join(f, ",")
	}, true},
	{"suggest_keyword", func(in string) string {
		w := in
		if i := strings.IndexAny(w, " \n\t("); i > 0 {
			w = w[:i]
		}
		return goerrors.SuggestKeyword(w)
	}, true},
	{"parse_cancelled_midway", func(in string) string {
		// a multi-statement script whose context turns done at the third poll: the error is
		// deterministic, and whatever the cancelled call put back into the pools must not be
		// shared by later calls
		ctx := cctx.New(1+len(in)%9, context.Canceled) // the poll index varies with the input: inside an expression, at a statement boundary, ...
		t, err := gosqlx.ParseWithContext(ctx, in+" ; "+in+" ; "+in)
		if err != nil {
			return errText(err)
		}
		defer ast.ReleaseAST(t)
		return astdump.Dump(t.Statements)
	}, true},
	{"suggest_misspelt", func(in string) string {
		// a word that is not in the suggestion cache yet: the first word of the input, mangled
		w := strings.ToUpper(in)
		if i := strings.IndexAny(w, " \n\t("); i > 0 {
			w = w[:i]
		}
		if len(w) > 3 {
			w = w[:2] + w[3:]
		}
		return goerrors.SuggestKeyword(w) + "|" + goerrors.SuggestKeyword(w+"X")
	}, true},
	{"metrics.GetStats", func(in string) string {
		s := metrics.GetStats()
		_ = s.ErrorsByType
		return ""
	}, false},
	{"span", func(in string) string {
		// a node of this goroutine's own: set and read back its span
		n := &ast.Identifier{Name: in}
		sp := models.Span{Start: models.Location{Line: 1, Column: 1}, End: models.Location{Line: 1, Column: len(in) + 1}}
		ast.SetSpan(n, sp)
		got := ast.GetSpan(n)
		return fmt.Sprint(got == sp)
	}, true},
	{"metrics.RecordTokenization", func(in string) string {
		metrics.RecordTokenization(time.Microsecond, len(in), nil)
		return ""
	}, false},
	{"metrics.RecordParse", func(in string) string {
		metrics.RecordParse(time.Microsecond, 1, nil)
		metrics.RecordASTPoolGet()
		metrics.RecordASTPoolPut()
		return ""
	}, false},
}

var opRecordTokenization, opRecordParse = func() (int, int) {
	a, b := -1, -1
	for i, o := range ops {
		switch o.name {
		case "metrics.RecordTokenization":
			a = i
		case "metrics.RecordParse":
			b = i
		}
	}
	return a, b
}()

// ---------------------------------------------------------------- the round

type Step struct {
	Op int `json:"op"`
	In int `json:"in"`
}

type RoundCase struct {
	Inputs []string `json:"inputs"`
	Plan   [][]Step `json:"plan"` // one step list per goroutine
	Procs  int      `json:"procs"`
	Rounds int      `json:"rounds"`
	Yield  bool     `json:"yield"` // Gosched between steps
	Cold   bool     `json:"cold"`  // run the plan once before anything sequential has touched the library
}

type delta struct {
	ops, errs, bytes int64
	min, max         int64
	parseOps         int64
	astGets, astPuts int64
	errTypes         map[string]int64
}

func oracleRound(c RoundCase) error {
	if !hx.Leaf() {
		return roundCheck.Contained(c, 10*time.Minute)
	}
	if c.Procs > 0 {
		runtime.GOMAXPROCS(c.Procs)
	}
	metrics.Enable()
	defer metrics.Disable()
	// phase 0: the same plan on the cold process, before anything sequential has run: lazily
	// built tables (compiled patterns, keyword maps, caches) are initialised by goroutines that
	// race for them; the answers are compared once the sequential ones are known
	type coldResult struct {
		gi  int
		s   Step
		got string
	}
	var (
		coldMu sync.Mutex
		cold   []coldResult
		coldSt *metrics.Stats
	)
	if c.Cold {
		metrics.Reset()
		if err := runRound(c, -1, func(gi int, s Step, got string) {
			coldMu.Lock()
			cold = append(cold, coldResult{gi, s, got})
			coldMu.Unlock()
		}); err != nil {
			return err
		}
		st := metrics.GetStats()
		coldSt = &st
	}
	// phase 1: the sequential answers and the metrics each (op, input) pair causes
	want := map[Step]string{}
	deltas := map[Step]delta{}
	for _, g := range c.Plan {
		for _, s := range g {
			if _, ok := want[s]; ok {
				continue
			}
			metrics.Reset()
			want[s] = ops[s.Op].run(c.Inputs[s.In])
			st := metrics.GetStats()
			deltas[s] = delta{ops: st.TokenizeOperations, errs: st.TokenizeErrors, bytes: st.TotalBytesProcessed, min: st.MinQuerySize, max: st.MaxQuerySize,
				parseOps: st.ParseOperations, astGets: st.ASTPoolGets, astPuts: st.ASTPoolPuts, errTypes: st.ErrorsByType}
			// determinism of the sequential answer itself
			if ops[s.Op].pure {
				if again := ops[s.Op].run(c.Inputs[s.In]); again != want[s] {
					return fmt.Errorf("%s is not deterministic even sequentially on %q:\n first:  %s\n second: %s", ops[s.Op].name, clip(c.Inputs[s.In]), clip(want[s]), clip(again))
				}
			}
		}
	}
	var exp delta
	exp.min, exp.max = -1, 0
	exp.errTypes = map[string]int64{}
	for _, g := range c.Plan {
		for _, s := range g {
			d := deltas[s]
			exp.ops += d.ops
			exp.errs += d.errs
			exp.bytes += d.bytes
			exp.parseOps += d.parseOps
			exp.astGets += d.astGets
			exp.astPuts += d.astPuts
			if d.ops > 0 {
				if exp.min == -1 || d.min < exp.min {
					exp.min = d.min
				}
				if d.max > exp.max {
					exp.max = d.max
				}
			}
			for k, v := range d.errTypes {
				exp.errTypes[k] += v
			}
		}
	}
	checkStats := func(round int, st metrics.Stats) error {
		check := func(name string, got, want int64) error {
			if got != want {
				return fmt.Errorf("round %d, %d goroutines (GOMAXPROCS %d): after quiescence metrics report %s = %d, the true value is %d", round, len(c.Plan), runtime.GOMAXPROCS(0), name, got, want)
			}
			return nil
		}
		for _, e := range []error{
			check("TokenizeOperations", st.TokenizeOperations, exp.ops), check("TokenizeErrors", st.TokenizeErrors, exp.errs),
			check("TotalBytesProcessed", st.TotalBytesProcessed, exp.bytes), check("ParseOperations", st.ParseOperations, exp.parseOps),
			check("ASTPoolGets", st.ASTPoolGets, exp.astGets), check("ASTPoolPuts", st.ASTPoolPuts, exp.astPuts),
		} {
			if e != nil {
				return e
			}
		}
		if exp.ops > 0 {
			if err := check("MinQuerySize", st.MinQuerySize, exp.min); err != nil {
				return err
			}
			if err := check("MaxQuerySize", st.MaxQuerySize, exp.max); err != nil {
				return err
			}
		}
		var sum int64
		for k, v := range st.ErrorsByType {
			sum += v
			if exp.errTypes[k] != v {
				return fmt.Errorf("round %d: ErrorsByType[%q] = %d, the true value is %d", round, clip(k), v, exp.errTypes[k])
			}
		}
		if sum != exp.errs {
			return fmt.Errorf("round %d: ErrorsByType sums to %d, %d errors happened", round, sum, exp.errs)
		}
		return nil
	}
	// the cold round against the answers now known
	for _, r := range cold {
		if ops[r.s.Op].pure && r.got != want[r.s] {
			return fmt.Errorf("cold round (first use of the library in this process, %d goroutines): goroutine %d: %s on %q returns\n  %s\nsequentially it returns\n  %s", len(c.Plan), r.gi, ops[r.s.Op].name, clip(c.Inputs[r.s.In]), clip(r.got), clip(want[r.s]))
		}
	}
	if coldSt != nil {
		if err := checkStats(-1, *coldSt); err != nil {
			return err
		}
	}
	for round := 0; round < c.Rounds; round++ {
		metrics.Reset()
		goerrors.ClearSuggestionCache() // the sequential phase primed it: make the concurrent calls compute again
		var mismatches int32
		var first atomic.Value
		if err := runRound(c, round, func(gi int, s Step, got string) {
			if ops[s.Op].pure && got != want[s] {
				if atomic.AddInt32(&mismatches, 1) == 1 {
					first.Store(fmt.Sprintf("goroutine %d: %s on %q returns\n  %s\nsequentially it returns\n  %s", gi, ops[s.Op].name, clip(c.Inputs[s.In]), clip(got), clip(want[s])))
				}
			}
		}); err != nil {
			return err
		}
		if mismatches > 0 {
			return fmt.Errorf("round %d, %d goroutines: %d results differ from the sequential answer; first: %s", round, len(c.Plan), mismatches, first.Load())
		}
		if err := checkStats(round, metrics.GetStats()); err != nil {
			return err
		}
	}
	return nil
}

// runRound releases the plan's goroutines together and waits for them. A round in which no
// step completes for idleLimit while every goroutine still alive is parked on a lock is a
// deadlock: a call that never returns, reported with the goroutines' positions.
func runRound(c RoundCase, round int, result func(gi int, s Step, got string)) error {
	oversubscribed := len(c.Plan) >= runtime.GOMAXPROCS(0) // a spinner per processor starves the releasing goroutine under -race
	var arrived, release int32
	var progress int64
	var wg sync.WaitGroup
	for gi, g := range c.Plan {
		wg.Add(1)
		go roundWorker(c, gi, g, &wg, &arrived, &release, &progress, oversubscribed, result)
	}
	for atomic.LoadInt32(&arrived) < int32(len(c.Plan)) {
		runtime.Gosched()
	}
	atomic.StoreInt32(&release, 1)
	done := make(chan struct{})
	go func() { wg.Wait(); close(done) }()
	tick := time.NewTicker(time.Second)
	defer tick.Stop()
	last, idle := int64(-1), 0
	for {
		select {
		case <-done:
			return nil
		case <-tick.C:
			cur := atomic.LoadInt64(&progress)
			if cur != last {
				last, idle = cur, 0
				continue
			}
			idle++
			if idle < idleLimit {
				continue
			}
			alive, parked, where := workerStates()
			if alive > 0 && parked == alive {
				return fmt.Errorf("round %d, %d goroutines (GOMAXPROCS %d): deadlock - no step has completed for %d s and all %d goroutines still inside a call are parked on a lock:\n%s", round, len(c.Plan), runtime.GOMAXPROCS(0), idle, alive, where)
			}
		}
	}
}

const idleLimit = 30 // seconds without a completed step before the goroutines' states are examined

func roundWorker(c RoundCase, gi int, g []Step, wg *sync.WaitGroup, arrived, release *int32, progress *int64, oversubscribed bool, result func(int, Step, string)) {
	defer wg.Done()
	// spin barrier: everyone starts within nanoseconds of each other
	atomic.AddInt32(arrived, 1)
	for atomic.LoadInt32(release) == 0 {
		if oversubscribed {
			runtime.Gosched() // more spinners than processors: let the others arrive
		}
	}
	for _, s := range g {
		got := ops[s.Op].run(c.Inputs[s.In])
		result(gi, s, got)
		atomic.AddInt64(progress, 1)
		if c.Yield {
			runtime.Gosched()
		}
	}
}

// workerStates reads the goroutine dump: how many plan goroutines are alive, how many of
// them wait on a sync primitive, and the innermost library frames of those.
func workerStates() (alive, parked int, where string) {
	buf := make([]byte, 8<<20)
	buf = buf[:runtime.Stack(buf, true)]
	var w []string
	for _, blk := range strings.Split(string(buf), "\n\n") {
		if !strings.Contains(blk, "c10.roundWorker(") {
			continue
		}
		alive++
		head := blk
		if i := strings.IndexByte(blk, '\n'); i >= 0 {
			head = blk[:i]
		}
		st := head
		if i := strings.IndexByte(head, '['); i >= 0 {
			st = head[i+1:]
		}
		if strings.HasPrefix(st, "sync.") || strings.HasPrefix(st, "semacquire") {
			parked++
			var frames []string
			for _, l := range strings.Split(blk, "\n") {
				if strings.Contains(l, "GoSQLX/") && !strings.HasPrefix(l, "\t") {
					frames = append(frames, strings.TrimSpace(l))
					if len(frames) == 3 {
						break
					}
				}
			}
			if len(w) < 6 {
				w = append(w, "  "+strings.TrimSuffix(head, ":")+" in "+strings.Join(frames, " <- "))
			}
		}
	}
	return alive, parked, strings.Join(w, "\n")
}

func clip(s string) string {
	if len(s) > 240 {
		return s[:240] + "…"
	}
	return s
}

var roundCheck *hx.Check[RoundCase]

func init() { roundCheck = hx.NewCheck("concurrent_rounds", oracleRound) }

func TestConcurrentRounds(t *testing.T) {
	hx.Rule("concurrent_rounds", fmt.Sprintf("a case is a workload of 6-30 generated inputs of distinct sizes (model statements, corrupted, corpus, soup) and a plan: 2-64 goroutines x 1-12 steps, each step one of %d operations (tokenize x2, five parse entry points, recovery, three formatters, extract, two scanners, lint, keyword suggestion cache (cleared before every round, incl. misspelt words), a three-statement parse cancelled at poll 1-9, metrics.GetStats, SetSpan/GetSpan on an own node, direct metrics.Record*) on one input; GOMAXPROCS in {1,2,4,16}; optional Gosched between steps; run in a child built with -race (GORACE=halt_on_error=1) for 3-12 rounds with metrics.Reset between them, goroutines released by a spin barrier; three cases in four run the plan once more as the very first use of the library in the child (cold round: lazily built tables are initialised under contention) before the sequential answers are computed; oracles: every result equals the sequential answer, no race report or fatal error ends the child, no round stalls (30 s without a completed step while every live goroutine is parked on a lock = deadlock), after quiescence TokenizeOperations/Errors/TotalBytes/ParseOperations/ASTPool counters/ErrorsByType/MinQuerySize/MaxQuerySize equal the sums/extremes of the per-step sequential deltas; non-trivial = >= 4 goroutines, >= 2 operation kinds, >= 2 input sizes; distinct = plan + inputs", len(ops)))
	if !raceEnabled && !hx.Leaf() {
		hx.Note("race_detector", "binary built WITHOUT -race: data races are not observed in this run")
	}
	roundCheck.Rapid(t, hx.N(160, 6000), func(rt *rapid.T) RoundCase {
		var c RoundCase
		f := sqlgen.FullFeatures()
		f.MaxDepth = 2
		nIn := rapid.IntRange(6, 30).Draw(rt, "inputs")
		sizes := map[int]bool{}
		for len(c.Inputs) < nIn {
			var s string
			switch rapid.IntRange(0, 4).Draw(rt, "input_class") {
			case 0, 1:
				s = sqlgen.SQL(sqlgen.Statement(sqlgen.New(rt, f)).Toks)
			case 2:
				toks := sqlgen.Statement(sqlgen.New(rt, f)).Toks
				if len(toks) >= 2 {
					toks = corrupt.Apply(rt, toks).Toks
				}
				s = sqlgen.SQL(toks)
			case 3:
				cp := bytegen.Corpus()
				s = cp[rapid.IntRange(0, len(cp)-1).Draw(rt, "corpus")]
			default:
				s = bytegen.Soup(rt, 1, 12)
			}
			for sizes[len(s)] { // distinct sizes make the true min/max unambiguous
				s += " "
			}
			sizes[len(s)] = true
			c.Inputs = append(c.Inputs, s)
		}
		g := rapid.SampledFrom([]int{2, 3, 4, 8, 16, 32, 64}).Draw(rt, "goroutines")
		kinds := map[int]bool{}
		focus := rapid.IntRange(0, 3).Draw(rt, "focus") // 3: metrics-heavy plan (short steps, tight overlap)
		for i := 0; i < g; i++ {
			var steps []Step
			n := rapid.IntRange(1, 12).Draw(rt, "steps")
			if focus == 3 {
				// metrics-focused plan: one or two short recording steps per goroutine, all released
				// together while the extremes are still unset - the window in which a non-atomic
				// compare-then-store loses the true minimum or maximum
				n = rapid.IntRange(1, 2).Draw(rt, "short_steps")
			}
			for j := 0; j < n; j++ {
				o := rapid.IntRange(0, len(ops)-1).Draw(rt, "op")
				if focus == 3 {
					o = rapid.SampledFrom([]int{opRecordTokenization, opRecordTokenization, 0, opRecordParse}).Draw(rt, "mop")
				}
				kinds[o] = true
				steps = append(steps, Step{Op: o, In: rapid.IntRange(0, len(c.Inputs)-1).Draw(rt, "in")})
			}
			c.Plan = append(c.Plan, steps)
		}
		if focus == 3 && g > 15 {
			c.Plan = c.Plan[:15] // keep one processor free for the releasing goroutine: a tight barrier
			g = 15
		}
		c.Procs = rapid.SampledFrom([]int{16, 4, 2, 1}).Draw(rt, "procs")
		c.Rounds = rapid.IntRange(3, 12).Draw(rt, "rounds")
		if focus == 3 {
			c.Rounds = 60
			hx.Class("concurrent_rounds", "metrics_focused_plan")
		}
		c.Yield = rapid.Bool().Draw(rt, "yield")
		c.Cold = rapid.IntRange(0, 3).Draw(rt, "cold") != 0
		if c.Cold {
			hx.Class("concurrent_rounds", "cold_first_round")
		}
		hx.Case("concurrent_rounds", g >= 4 && len(kinds) >= 2, fmt.Sprint(c.Plan, c.Inputs), fmt.Sprintf("goroutines_%d", g), fmt.Sprintf("procs_%d", c.Procs))
		hx.Sample("concurrent_rounds", map[string]interface{}{"goroutines": g, "procs": c.Procs, "rounds": c.Rounds, "inputs": len(c.Inputs), "first_plan": c.Plan[0]})
		return c
	})
}
