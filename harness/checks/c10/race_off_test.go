//go:build !race

package c10

const raceEnabled = false
