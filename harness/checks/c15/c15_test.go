package c15

import (
	"fmt"
	"sort"
	"strings"
	"testing"

	"github.com/ajitpratap0/GoSQLX/pkg/gosqlx"
	"pgregory.net/rapid"
	"verif/gen/lexgen"
	"verif/gen/sqlgen"
	"verif/internal/hx"
)

func TestMain(m *testing.M) { hx.Main(m, "C15") }

// ExtractCase: a statement plus the name sets the generator placed.
type ExtractCase struct {
	SQL    string   `json:"sql"`
	Laid   string   `json:"laid_out"` // same tokens, hostile layout (may be empty)
	Tables []string `json:"tables"`   // as written (dotted)
	Cols   []string `json:"columns"`  // "t.c" or "c"
	Funcs  []string `json:"functions"`
	MaybeT []string `json:"maybe_tables"`
	MaybeC []string `json:"maybe_columns"`
	Alias  []string `json:"aliases"`
	Strs   []string `json:"strings"`
}

func base(s string) string {
	if i := strings.LastIndexByte(s, '.'); i >= 0 {
		return s[i+1:]
	}
	return s
}

func set(xs []string, f func(string) string) map[string]bool {
	m := map[string]bool{}
	for _, x := range xs {
		if f != nil {
			x = f(x)
		}
		m[x] = true
	}
	return m
}

func keys(m map[string]bool) []string {
	var out []string
	for k := range m {
		out = append(out, k)
	}
	sort.Strings(out)
	return out
}

// compare: must ⊆ got ⊆ must ∪ may, and got has no duplicates.
func compare(what string, got []string, must, may map[string]bool) error {
	seen := map[string]bool{}
	for _, g := range got {
		if seen[g] {
			return fmt.Errorf("%s: %q is listed twice (%v)", what, g, got)
		}
		seen[g] = true
		if !must[g] && !may[g] {
			return fmt.Errorf("%s: %q was extracted but is not written in such a position (extracted %v, written %v)", what, g, sorted(got), keys(must))
		}
	}
	for m := range must {
		if !seen[m] {
			return fmt.Errorf("%s: %q is written in the statement but was not extracted (extracted %v)", what, m, sorted(got))
		}
	}
	return nil
}

func sorted(xs []string) []string {
	out := append([]string{}, xs...)
	sort.Strings(out)
	return out
}

type extracted struct {
	tables, tablesQ, cols, colsQ, funcs []string
}

func extract(sql string) (*extracted, error) {
	tree, err := gosqlx.Parse(sql)
	if err != nil {
		return nil, err
	}
	e := &extracted{tables: gosqlx.ExtractTables(tree), cols: gosqlx.ExtractColumns(tree), funcs: gosqlx.ExtractFunctions(tree)}
	for _, q := range gosqlx.ExtractTablesQualified(tree) {
		e.tablesQ = append(e.tablesQ, q.String())
	}
	for _, q := range gosqlx.ExtractColumnsQualified(tree) {
		e.colsQ = append(e.colsQ, q.String())
	}
	md := gosqlx.ExtractMetadata(tree)
	var mq, mc []string
	for _, q := range md.TablesQualified {
		mq = append(mq, q.String())
	}
	for _, q := range md.ColumnsQualified {
		mc = append(mc, q.String())
	}
	for _, p := range [][2][]string{{md.Tables, e.tables}, {mq, e.tablesQ}, {md.Columns, e.cols}, {mc, e.colsQ}, {md.Functions, e.funcs}} {
		if fmt.Sprint(sorted(p[0])) != fmt.Sprint(sorted(p[1])) {
			return nil, fmt.Errorf("METADATA: ExtractMetadata disagrees with the individual extractors: %v vs %v", sorted(p[0]), sorted(p[1]))
		}
	}
	return e, nil
}

func oracleExtract(c ExtractCase) error {
	e, err := extract(c.SQL)
	if err != nil {
		if strings.HasPrefix(err.Error(), "METADATA") {
			return err
		}
		return nil // acceptance is C03's business
	}
	lowerSet := func(xs []string) map[string]bool { return set(xs, nil) }
	// unqualified tables: compared on the last name part (the unqualified variant may or may not keep qualifiers)
	var gotBase []string
	dup := map[string]bool{}
	for _, t := range e.tables {
		b := base(t)
		if !dup[b] {
			gotBase = append(gotBase, b)
		}
		dup[b] = true
	}
	if len(set(e.tables, nil)) != len(e.tables) {
		return fmt.Errorf("tables: duplicates in %v", e.tables)
	}
	if err := compare("tables", gotBase, set(c.Tables, base), set(c.MaybeT, base)); err != nil {
		return err
	}
	if err := compare("qualified tables", e.tablesQ, lowerSet(c.Tables), lowerSet(c.MaybeT)); err != nil {
		return err
	}
	if err := compare("columns", e.cols, set(c.Cols, base), set(c.MaybeC, base)); err != nil {
		return err
	}
	if err := compare("qualified columns", e.colsQ, lowerSet(c.Cols), lowerSet(c.MaybeC)); err != nil {
		return err
	}
	if err := compare("functions", e.funcs, lowerSet(c.Funcs), nil); err != nil {
		return err
	}
	// layout independence
	if c.Laid != "" {
		l, err := extract(c.Laid)
		if err != nil {
			return nil
		}
		for _, p := range [][2][]string{{l.tables, e.tables}, {l.tablesQ, e.tablesQ}, {l.cols, e.cols}, {l.colsQ, e.colsQ}, {l.funcs, e.funcs}} {
			if fmt.Sprint(sorted(p[0])) != fmt.Sprint(sorted(p[1])) {
				return fmt.Errorf("same statement, different layout, different extraction: %v vs %v", sorted(p[0]), sorted(p[1]))
			}
		}
	}
	return nil
}

var extractCheck = hx.NewCheck("extraction_exact", oracleExtract)

func features() sqlgen.Features {
	f := sqlgen.AllFeatures()
	f.Merge = hx.Allowed("c15.merge")
	f.DDLExtras = f.Merge                                           // MERGE with a sub-query source
	f.MySQL, f.NoShowDescribe = hx.Allowed("c15.mysql_forms"), true // REPLACE INTO, ON DUPLICATE KEY UPDATE, MATCH .. AGAINST
	f.NoMatchAgainst = !hx.Allowed("c15.match_against")
	f.OrderByAlias = hx.Allowed("c15.order_by_alias")
	f.KeywordValues = hx.Allowed("c15.keyword_values")
	f.NoWindowFrame = !hx.Allowed("c15.window_frame_children") // frame offsets are not traversed (C14 finding)
	return f
}

func TestExtractionExact(t *testing.T) {
	hx.Rule("extraction_exact", "G-SQL statements for which the generator recorded every table written in a table position, every column reference (incl. INSERT/SET/USING/ON CONFLICT columns) and every function call; the five extractors (and ExtractMetadata) must return exactly those sets, duplicate-free, with qualifiers in the qualified variants, and the same sets for a hostile re-layout; names in unclassified positions (CTE column lists, FOR UPDATE OF) may or may not appear; non-trivial = a name inside a nested query or in a non-FROM table position; distinct = kind + feature set")
	extractCheck.Rapid(t, hx.N(100000, 1000000), genExtractionExact)
}

func mk(m map[string]bool) []string { return keys(m) }

// genExtractionExact is the case generator of extractCheck (shared by the rapid run and the native fuzz target).
func genExtractionExact(rt *rapid.T) ExtractCase {
	g := sqlgen.New(rt, features())
	st := sqlgen.Statement(g)
	c := ExtractCase{SQL: sqlgen.SQL(st.Toks), Tables: mk(st.Names.Tables), Cols: mk(st.Names.Columns), Funcs: mk(st.Names.Functions),
		MaybeT: mk(st.Names.MaybeTables), MaybeC: mk(st.Names.MaybeColumns), Alias: mk(st.Names.Aliases), Strs: mk(st.Names.Strings)}
	if rapid.IntRange(0, 3).Draw(rt, "relayout") == 0 {
		lx := sqlgen.Lexemes(st.Toks)
		f := lexgen.Features{StringStartsWithDoubledQuote: true, TrailingComment: true, Comments: true}
		c.Laid = lexgen.Render(lexgen.Recase(rt, lx), lexgen.GenSeps(rt, f, lx, "l")).Src
	}
	nested := st.Stats["scalar_subquery"]+st.Stats["in_subquery"]+st.Stats["exists"]+st.Stats["not_exists"]+st.Stats["derived_table"]+st.Stats["with"]+st.Stats["quantified"]+st.Stats["join_derived"] > 0
	nonFrom := st.Kind != "query" || st.Stats["join"] > 0
	var cl []string
	for k := range st.Stats {
		cl = append(cl, k)
	}
	sort.Strings(cl)
	hx.Case("extraction_exact", nested || nonFrom, st.Kind+"|"+strings.Join(cl, ","), "kind_"+st.Kind)
	hx.Sample("extraction_exact", c.SQL)
	return c
}

// FuzzExtractionExact: coverage-guided search over the same generator (thorough tier).
func FuzzExtractionExact(f *testing.F) { extractCheck.Fuzz(f, genExtractionExact) }
