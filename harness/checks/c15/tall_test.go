package c15

import (
	"fmt"
	"strings"
	"testing"

	"pgregory.net/rapid"
	"verif/internal/hx"
)

// Tall trees: statements of ordinary grammar whose tree is as high as the input is long
// (operator and set-operation chains are left-deep) or as deep as the nesting limit allows.
// The extracted sets must still be exactly the names written, whatever the height.
var tallCheck = hx.NewCheck("extraction_tall_trees", oracleExtract)

func genTall(rt *rapid.T) ExtractCase {
	shape := rapid.SampledFrom([]string{"union_chain", "or_chain", "and_chain", "arith_chain", "derived_nest", "scalar_nest", "join_chain", "concat_calls", "case_nest", "in_subquery_chain"}).Draw(rt, "shape")
	n := rapid.SampledFrom([]int{2, 30, 60, 98, 101, 120, 250, 600}).Draw(rt, "n")
	n += rapid.IntRange(0, 3).Draw(rt, "n_plus")
	var c ExtractCase
	add := func(dst *[]string, s string) { *dst = append(*dst, s) }
	var b strings.Builder
	switch shape {
	case "union_chain":
		op := rapid.SampledFrom([]string{" UNION ", " UNION ALL ", " EXCEPT "}).Draw(rt, "setop")
		for i := 0; i < n; i++ {
			if i > 0 {
				b.WriteString(op)
			}
			fmt.Fprintf(&b, "SELECT c%d FROM t%d WHERE f%d ( d%d ) > 0", i, i, i, i)
			add(&c.Tables, fmt.Sprintf("t%d", i))
			add(&c.Cols, fmt.Sprintf("c%d", i))
			add(&c.Cols, fmt.Sprintf("d%d", i))
			add(&c.Funcs, fmt.Sprintf("f%d", i))
		}
	case "or_chain", "and_chain":
		op := " OR "
		if shape == "and_chain" {
			op = " AND "
		}
		b.WriteString("SELECT a FROM t WHERE ")
		add(&c.Tables, "t")
		add(&c.Cols, "a")
		for i := 0; i < n; i++ {
			if i > 0 {
				b.WriteString(op)
			}
			if i%7 == 3 {
				fmt.Fprintf(&b, "c%d IN ( SELECT e%d FROM u%d )", i, i, i)
				add(&c.Tables, fmt.Sprintf("u%d", i))
				add(&c.Cols, fmt.Sprintf("e%d", i))
			} else {
				fmt.Fprintf(&b, "c%d = g%d ( %d )", i, i, i)
				add(&c.Funcs, fmt.Sprintf("g%d", i))
			}
			add(&c.Cols, fmt.Sprintf("c%d", i))
		}
	case "arith_chain":
		b.WriteString("SELECT ")
		for i := 0; i < n; i++ {
			if i > 0 {
				b.WriteString(rapid.SampledFrom([]string{" + ", " - ", " * ", " || "}).Draw(rt, "aop"))
			}
			fmt.Fprintf(&b, "c%d", i)
			add(&c.Cols, fmt.Sprintf("c%d", i))
		}
		b.WriteString(" FROM t")
		add(&c.Tables, "t")
	case "derived_nest", "scalar_nest", "case_nest":
		if n > 95 {
			n = 60 + n%36 // nesting stays under the documented depth limit
		}
		switch shape {
		case "derived_nest":
			for i := 0; i < n; i++ {
				fmt.Fprintf(&b, "SELECT c%d FROM ( ", i)
				add(&c.Cols, fmt.Sprintf("c%d", i))
			}
			b.WriteString("SELECT z FROM inner_t")
			add(&c.Cols, "z")
			add(&c.Tables, "inner_t")
			for i := n - 1; i >= 0; i-- {
				fmt.Fprintf(&b, " ) AS d%d", i)
				add(&c.Alias, fmt.Sprintf("d%d", i))
			}
		case "scalar_nest":
			for i := 0; i < n; i++ {
				fmt.Fprintf(&b, "SELECT c%d + ( ", i)
				add(&c.Cols, fmt.Sprintf("c%d", i))
			}
			b.WriteString("SELECT h ( z ) FROM inner_t")
			add(&c.Cols, "z")
			add(&c.Funcs, "h")
			add(&c.Tables, "inner_t")
			for i := n - 1; i >= 0; i-- {
				fmt.Fprintf(&b, " ) FROM t%d", i)
				add(&c.Tables, fmt.Sprintf("t%d", i))
			}
		default:
			b.WriteString("SELECT ")
			for i := 0; i < n; i++ {
				fmt.Fprintf(&b, "CASE WHEN c%d = 1 THEN ", i)
				add(&c.Cols, fmt.Sprintf("c%d", i))
			}
			b.WriteString("k ( z )")
			add(&c.Cols, "z")
			add(&c.Funcs, "k")
			for i := 0; i < n; i++ {
				b.WriteString(" END")
			}
			b.WriteString(" FROM t")
			add(&c.Tables, "t")
		}
	case "join_chain":
		b.WriteString("SELECT a FROM t0")
		add(&c.Tables, "t0")
		add(&c.Cols, "a")
		for i := 1; i < n; i++ {
			fmt.Fprintf(&b, " JOIN t%d ON t%d . k%d = t%d . k%d", i, i-1, i, i, i)
			add(&c.Tables, fmt.Sprintf("t%d", i))
			add(&c.Cols, fmt.Sprintf("t%d.k%d", i-1, i))
			add(&c.Cols, fmt.Sprintf("t%d.k%d", i, i))
		}
	case "concat_calls":
		b.WriteString("SELECT ")
		for i := 0; i < n; i++ {
			if i > 0 {
				b.WriteString(" , ")
			}
			fmt.Fprintf(&b, "f%d ( c%d )", i, i)
			add(&c.Funcs, fmt.Sprintf("f%d", i))
			add(&c.Cols, fmt.Sprintf("c%d", i))
		}
		b.WriteString(" FROM t")
		add(&c.Tables, "t")
	default: // in_subquery_chain: every level's WHERE holds the next level
		if n > 95 {
			n = 60 + n%36
		}
		for i := 0; i < n; i++ {
			fmt.Fprintf(&b, "SELECT c%d FROM t%d WHERE c%d IN ( ", i, i, i)
			add(&c.Cols, fmt.Sprintf("c%d", i))
			add(&c.Tables, fmt.Sprintf("t%d", i))
		}
		b.WriteString("SELECT z FROM inner_t")
		add(&c.Cols, "z")
		add(&c.Tables, "inner_t")
		b.WriteString(strings.Repeat(" )", n))
	}
	c.SQL = b.String()
	hx.Case("extraction_tall_trees", n >= 50, fmt.Sprint(shape, n), "shape_"+shape, fmt.Sprintf("height_ge_100_%v", n >= 100))
	hx.Sample("extraction_tall_trees", map[string]interface{}{"shape": shape, "n": n, "sql_starts": clipT(c.SQL)})
	return c
}

func clipT(s string) string {
	if len(s) > 160 {
		return s[:160] + "…"
	}
	return s
}

func TestExtractionTallTrees(t *testing.T) {
	hx.Rule("extraction_tall_trees", "ten statement shapes whose tree height grows with the input (set-operation, OR/AND, arithmetic and JOIN chains of 2-600 terms, wide select lists) or reaches the nesting limit (60-95 nested derived tables, scalar sub-queries, CASE expressions, IN sub-queries), every level with its own table, column and function names; same oracle as extraction_exact: the extractors return exactly the names written; non-trivial = 50 or more levels/terms; distinct = shape + size")
	tallCheck.Rapid(t, hx.N(400, 4000), genTall)
}
