package c19

import (
	"fmt"
	"os"
	"path/filepath"
	"strings"
	"testing"

	"github.com/ajitpratap0/GoSQLX/pkg/linter"
	"pgregory.net/rapid"
	"verif/internal/hx"
)

// UnavailCase: a set of well-formed files given by name or through their directory (-r),
// optionally together with one input that cannot be read at all. An input that cannot be
// read is not accepted by the library, so the command must not exit with status zero; a
// directory walk over readable files must give the verdict the files give one by one.
type UnavailCase struct {
	Cmd   string   `json:"cmd"` // validate | lint | format | parse
	Flags []string `json:"flags"`
	Files []File   `json:"files"`
	// Bad: "" (nothing unavailable) | missing_file | missing_dir | bad_pattern | rejected_after_stdin_marker
	Bad       string `json:"bad"`
	BadFirst  bool   `json:"bad_first"`
	Recursive bool   `json:"recursive"` // the files are given as "-r ."
}

func oracleUnavail(c UnavailCase) error {
	dir, err := setup(c.Files)
	if err != nil {
		return fmt.Errorf("HARNESS: %v", err)
	}
	defer os.RemoveAll(dir)
	before := snapshot(dir, c.Files)
	args := append([]string{c.Cmd}, c.Flags...)
	var inputs []string
	if c.Recursive {
		args = append(args, "-r")
		inputs = []string{"."}
	} else {
		for _, f := range c.Files {
			inputs = append(inputs, f.Name)
		}
	}
	bad := ""
	switch c.Bad {
	case "missing_file":
		bad = "no-such-file.sql"
	case "missing_dir":
		bad = "no-such-dir"
	case "bad_pattern":
		args = append(args, "--pattern", "[")
	case "rejected_after_stdin_marker":
		// "-" first, then a file the library rejects: the file is a given input, it counts
		if err := os.WriteFile(filepath.Join(dir, "rejected.sql"), []byte("SELECT FROM WHERE"), 0o644); err != nil {
			return fmt.Errorf("HARNESS: %v", err)
		}
		inputs = append([]string{"-"}, append(inputs, "rejected.sql")...)
	}
	if bad != "" {
		if c.BadFirst {
			inputs = append([]string{bad}, inputs...)
		} else {
			inputs = append(inputs, bad)
		}
	}
	args = append(args, inputs...)
	stdin := ""
	if c.Bad == "rejected_after_stdin_marker" {
		stdin = "SELECT 1\n"
	}
	r, err := runCmd(dir, stdin, binPath, args...)
	if err != nil {
		return fmt.Errorf("HARNESS: %v", err)
	}
	desc := fmt.Sprintf("gosqlx %s (files: %v)", strings.Join(args, " "), describe(c.Files))
	if after := snapshot(dir, c.Files); fmt.Sprint(before) != fmt.Sprint(after) {
		return fmt.Errorf("%s modified an input file (a check-only run must not)", desc)
	}
	if c.Bad != "" {
		if r.code == 0 {
			why := "one of its inputs cannot be read"
			if c.Bad == "rejected_after_stdin_marker" {
				why = "the library rejects rejected.sql (SELECT FROM WHERE), which is one of the inputs given"
			}
			return fmt.Errorf("%s exits with status 0 although %s\n stdout: %s\n stderr: %s", desc, why, clip(r.stdout), clip(r.stderr))
		}
		return nil
	}
	// all inputs readable: the verdict of the files one by one
	wantOK := true
	switch c.Cmd {
	case "lint":
		errs, warns := 0, 0
		for _, f := range c.Files {
			for _, v := range linter.New(cliLintRules(100)...).LintString(f.Content, f.Name).Violations {
				switch v.Severity {
				case linter.SeverityError:
					errs++
				case linter.SeverityWarning:
					warns++
				}
			}
		}
		wantOK = errs == 0 && !(has(c.Flags, "--fail-on-warn") && warns > 0)
	default:
		for _, f := range c.Files {
			if strings.TrimSpace(f.Content) == "" {
				return nil // the entry points disagree on empty input (see cli_verdict)
			}
			wantOK = wantOK && accepts(f.Content, "", false)
		}
	}
	if c.Cmd == "format" && has(c.Flags, "--check") && wantOK {
		return nil // accepted files may still need formatting: that verdict is format_modes_consistent's
	}
	if (r.code == 0) != wantOK {
		return fmt.Errorf("%s exits with status %d, the files one by one give the verdict %v\n stdout: %s\n stderr: %s", desc, r.code, wantOK, clip(r.stdout), clip(r.stderr))
	}
	return nil
}

var unavailCheck = hx.NewCheck("cli_unavailable_inputs", oracleUnavail)

func TestCLIUnavailableInputs(t *testing.T) {
	hx.Rule("cli_unavailable_inputs", "the real binary on 1-3 generated files given by name or through their directory (validate -r / lint -r), alone or together with one input that cannot be read (a missing file, a missing directory, a malformed --pattern, a rejected file after the stdin marker \"-\"), before or after the readable ones, x validate / lint (--fail-on-warn) / format (--check) / parse: with an unreadable input the exit status is non-zero, otherwise it is the verdict the files give one by one; no file is modified; non-trivial = an unreadable input next to readable ones, or a directory walk; distinct = command + flags + kind + order")
	if _, err := build(); err != nil {
		t.Fatalf("HARNESS: %v", err)
	}
	unavailCheck.Rapid(t, hx.N(250, 3000), func(rt *rapid.T) UnavailCase {
		var c UnavailCase
		c.Cmd = rapid.SampledFrom([]string{"lint", "validate", "format", "parse"}).Draw(rt, "cmd")
		n := rapid.IntRange(1, 3).Draw(rt, "nfiles")
		names := []string{"a.sql", "b.sql", "my file.sql"}
		var vec []string
		for i := 0; i < n; i++ {
			var content, cl string
			if c.Cmd == "lint" {
				content, cl = genLintContent(rt)
			} else {
				content, cl = genContent(rt)
			}
			c.Files = append(c.Files, File{Name: names[i], Content: content})
			vec = append(vec, cl)
		}
		switch c.Cmd {
		case "lint":
			if rapid.Bool().Draw(rt, "fow") {
				c.Flags = append(c.Flags, "--fail-on-warn")
			}
			c.Recursive = rapid.Bool().Draw(rt, "recursive")
		case "validate":
			c.Recursive = rapid.Bool().Draw(rt, "recursive")
			if rapid.IntRange(0, 2).Draw(rt, "quiet") == 0 {
				c.Flags = append(c.Flags, "-q")
			}
		case "format":
			if rapid.Bool().Draw(rt, "check") {
				c.Flags = append(c.Flags, "--check")
			}
		case "parse":
			c.Files, vec = c.Files[:1], vec[:1]
		}
		kinds := []string{"", "missing_file"}
		if !c.Recursive && (c.Cmd == "validate" || c.Cmd == "format") {
			kinds = append(kinds, "rejected_after_stdin_marker")
		}
		if c.Recursive {
			kinds = []string{"", "missing_file", "missing_dir", "bad_pattern"}
		}
		c.Bad = rapid.SampledFrom(kinds).Draw(rt, "bad")
		c.BadFirst = rapid.Bool().Draw(rt, "bad_first")
		if c.Cmd == "parse" && c.Bad != "" {
			c.Files, vec = nil, nil // parse takes one input
		}
		hx.Case("cli_unavailable_inputs", (c.Bad != "" && len(c.Files) > 0) || c.Recursive, fmt.Sprint(c.Cmd, c.Flags, c.Bad, c.BadFirst, c.Recursive, vec), "cmd_"+c.Cmd, "bad_"+c.Bad, fmt.Sprintf("recursive_%v", c.Recursive))
		hx.Sample("cli_unavailable_inputs", map[string]interface{}{"cmd": c.Cmd, "flags": c.Flags, "bad": c.Bad, "recursive": c.Recursive, "files": len(c.Files)})
		return c
	})
}
