package c19

import (
	"bytes"
	"crypto/sha256"
	"encoding/json"
	"fmt"
	"os"
	"os/exec"
	"path/filepath"
	"sort"
	"strings"
	"sync"
	"testing"
	"time"

	"github.com/ajitpratap0/GoSQLX/pkg/linter"
	"github.com/ajitpratap0/GoSQLX/pkg/linter/rules/keywords"
	"github.com/ajitpratap0/GoSQLX/pkg/linter/rules/style"
	"github.com/ajitpratap0/GoSQLX/pkg/linter/rules/whitespace"
	sqlkw "github.com/ajitpratap0/GoSQLX/pkg/sql/keywords"
	"github.com/ajitpratap0/GoSQLX/pkg/sql/parser"
	"github.com/ajitpratap0/GoSQLX/pkg/sql/tokenizer"
	"pgregory.net/rapid"
	"verif/gen/corrupt"
	"verif/gen/sqlgen"
	"verif/internal/hx"
)

func TestMain(m *testing.M) { hx.Main(m, "C19") }

var (
	buildOnce sync.Once
	binPath   string
	fsizeBin  string
	buildErr  error
	workRoot  string
)

// build compiles the gosqlx binary from the tree under test and the fsizeexec helper.
func build() (string, error) {
	buildOnce.Do(func() {
		repo := os.Getenv("VERIF_REPO")
		if repo == "" {
			repo = "/repo"
		}
		workRoot = os.Getenv("VERIF_WORK")
		if workRoot == "" {
			workRoot, _ = os.MkdirTemp("", "verif-c19-")
		}
		workRoot = filepath.Join(workRoot, fmt.Sprintf("c19-%d", os.Getpid()))
		os.MkdirAll(workRoot, 0o755)
		binPath = filepath.Join(workRoot, "gosqlx")
		cmd := exec.Command("go", "build", "-o", binPath, "./cmd/gosqlx")
		cmd.Dir = repo
		cmd.Env = append(os.Environ(), "GOFLAGS=-mod=mod")
		if out, err := cmd.CombinedOutput(); err != nil {
			buildErr = fmt.Errorf("cannot build gosqlx: %v\n%s", err, out)
			return
		}
		fsizeBin = filepath.Join(workRoot, "fsizeexec")
		harness := os.Getenv("VERIF_ROOT")
		if harness == "" {
			harness = "/verif"
		}
		cmd = exec.Command("go", "build", "-o", fsizeBin, "./cmd/fsizeexec")
		cmd.Dir = filepath.Join(harness, "harness")
		cmd.Env = append(os.Environ(), "GOFLAGS=-mod=mod")
		if out, err := cmd.CombinedOutput(); err != nil {
			buildErr = fmt.Errorf("cannot build fsizeexec: %v\n%s", err, out)
		}
	})
	return binPath, buildErr
}

type runResult struct {
	code   int
	stdout string
	stderr string
}

func runCmd(dir string, stdin string, name string, args ...string) (runResult, error) {
	cmd := exec.Command(name, args...)
	cmd.Dir = dir
	cmd.Env = append(os.Environ(), "NO_COLOR=1", "HOME="+dir)
	if stdin != "" {
		cmd.Stdin = strings.NewReader(stdin)
	}
	var so, se bytes.Buffer
	cmd.Stdout, cmd.Stderr = &so, &se
	done := make(chan error, 1)
	if err := cmd.Start(); err != nil {
		return runResult{}, err
	}
	go func() { done <- cmd.Wait() }()
	select {
	case err := <-done:
		r := runResult{stdout: so.String(), stderr: se.String()}
		if err != nil {
			if ee, ok := err.(*exec.ExitError); ok {
				r.code = ee.ExitCode()
			} else {
				return r, err
			}
		}
		return r, nil
	case <-time.After(60 * time.Second):
		cmd.Process.Kill()
		return runResult{}, fmt.Errorf("command did not finish in 60 s")
	}
}

// ---------------------------------------------------------------- file sets

type File struct {
	Name    string `json:"name"`
	Content string `json:"content"`
}

type CLICase struct {
	Cmd   string   `json:"cmd"` // validate | format | lint | parse
	Flags []string `json:"flags"`
	Files []File   `json:"files"`
	// Mode: "" = file arguments; "stdin" = the first file's content piped in; "inline" = given as the argument
	Mode string `json:"mode,omitempty"`
}

// accepts: the library's verdict on content under the same options.
func accepts(content string, dialect string, strict bool) bool {
	if len(content) == 0 {
		return true // see "hinges" in oracleCLI
	}
	tkz := tokenizer.GetTokenizer()
	defer tokenizer.PutTokenizer(tkz)
	if dialect != "" {
		tkz.SetDialect(sqlkw.SQLDialect(dialect))
	}
	toks, err := tkz.Tokenize([]byte(content))
	if err != nil {
		return false
	}
	var opts []parser.ParserOption
	if dialect != "" {
		opts = append(opts, parser.WithDialect(dialect))
	}
	if strict {
		opts = append(opts, parser.WithStrictMode())
	}
	p := parser.NewParser(opts...)
	defer p.Release()
	_, err = p.ParseFromModelTokens(toks)
	return err == nil
}

type snap struct {
	sum  [32]byte
	mode os.FileMode
	mod  time.Time
}

func snapshot(dir string, files []File) map[string]snap {
	m := map[string]snap{}
	for _, f := range files {
		p := filepath.Join(dir, f.Name)
		b, err := os.ReadFile(p)
		if err != nil {
			continue
		}
		st, _ := os.Stat(p)
		m[f.Name] = snap{sha256.Sum256(b), st.Mode(), st.ModTime()}
	}
	return m
}

func setup(files []File) (string, error) {
	if _, err := build(); err != nil {
		return "", err
	}
	dir, err := os.MkdirTemp(workRoot, "case-")
	if err != nil {
		return "", err
	}
	for _, f := range files {
		if err := os.WriteFile(filepath.Join(dir, f.Name), []byte(f.Content), 0o644); err != nil {
			return "", err
		}
	}
	return dir, nil
}

func has(flags []string, f string) bool {
	for _, x := range flags {
		if x == f {
			return true
		}
	}
	return false
}

func flagValue(flags []string, f string) string {
	for i, x := range flags {
		if x == f && i+1 < len(flags) {
			return flags[i+1]
		}
	}
	return ""
}

func cliLintRules(max int) []linter.Rule {
	return []linter.Rule{
		whitespace.NewTrailingWhitespaceRule(), whitespace.NewMixedIndentationRule(), whitespace.NewConsecutiveBlankLinesRule(1),
		whitespace.NewIndentationDepthRule(4, 4), whitespace.NewLongLinesRule(max), whitespace.NewRedundantWhitespaceRule(),
		style.NewColumnAlignmentRule(), style.NewCommaPlacementRule(style.CommaTrailing), style.NewAliasingConsistencyRule(true),
		keywords.NewKeywordCaseRule(keywords.CaseUpper),
	}
}

func oracleCLI(c CLICase) error {
	dir, err := setup(c.Files)
	if err != nil {
		return fmt.Errorf("HARNESS: %v", err)
	}
	defer os.RemoveAll(dir)
	var names []string
	for _, f := range c.Files {
		names = append(names, f.Name)
	}
	before := snapshot(dir, c.Files)
	args := append([]string{c.Cmd}, c.Flags...)
	stdin := ""
	switch c.Mode {
	case "stdin":
		stdin = c.Files[0].Content
	case "inline":
		args = append(args, c.Files[0].Content)
	default:
		args = append(args, names...)
	}
	r, err := runCmd(dir, stdin, binPath, args...)
	if err != nil {
		return fmt.Errorf("HARNESS: %v", err)
	}
	if c.Mode != "" {
		// text given directly: only the verdict is compared
		f := c.Files[0]
		if strings.TrimSpace(f.Content) == "" {
			return nil
		}
		if c.Mode == "inline" && !startsWithStatementKeyword(f.Content) {
			// not the documented inline form: the command takes the argument for the name of a file, which does not exist
			if r.code == 0 {
				return fmt.Errorf("gosqlx %s %s %q exits 0 although the argument is neither SQL in the documented inline form nor an existing file", c.Cmd, strings.Join(c.Flags, " "), clip(f.Content))
			}
			return nil
		}
		ok := accepts(f.Content, flagValue(c.Flags, "--dialect"), has(c.Flags, "--strict"))
		if c.Cmd == "lint" {
			// the verdict on a text does not depend on how the text is handed over: the same flags with the
			// text in a file must end with the same kind of exit status (zero / non-zero)
			fdir, err := os.MkdirTemp(workRoot, "lint-")
			if err != nil {
				return fmt.Errorf("HARNESS: %v", err)
			}
			defer os.RemoveAll(fdir)
			if err := os.WriteFile(filepath.Join(fdir, "in.sql"), []byte(f.Content), 0o644); err != nil {
				return fmt.Errorf("HARNESS: %v", err)
			}
			rf, err := runCmd(fdir, "", binPath, append(append([]string{"lint"}, c.Flags...), "in.sql")...)
			if err != nil {
				return fmt.Errorf("HARNESS: %v", err)
			}
			if (rf.code == 0) != (r.code == 0) {
				return fmt.Errorf("gosqlx lint %s exits with status %d for the text %q in a file but with status %d for the same text given on %s\n file run: %s\n %s run: %s", strings.Join(c.Flags, " "), rf.code, clip(f.Content), r.code, c.Mode, clip(rf.stdout+rf.stderr), c.Mode, clip(r.stdout+r.stderr))
			}
			return nil
		}
		if of := flagValue(c.Flags, "--output-format"); c.Cmd == "validate" && (of == "json" || of == "sarif") {
			// the report of a run on text given directly is well-formed and names the input, not a scratch file of the command
			var v interface{}
			if err := json.Unmarshal([]byte(r.stdout), &v); err != nil {
				return fmt.Errorf("gosqlx validate %s with the text %q given on %s: the %s report is not well-formed JSON: %v\n %s", strings.Join(c.Flags, " "), clip(f.Content), c.Mode, of, err, clip(r.stdout))
			}
			if strings.Contains(r.stdout, "gosqlx-stdin") || strings.Contains(r.stdout, os.TempDir()+"/") {
				return fmt.Errorf("gosqlx validate %s on %s: the %s report names a temporary file instead of the input: %s", strings.Join(c.Flags, " "), c.Mode, of, clip(r.stdout))
			}
		}
		if c.Cmd == "format" && has(c.Flags, "--check") {
			// the verdict of --check on a text given directly: 0 exactly when the text is what format prints for it
			if !ok {
				if r.code == 0 {
					return fmt.Errorf("gosqlx format %s with the rejected text %q given on %s exits 0", strings.Join(c.Flags, " "), clip(f.Content), c.Mode)
				}
				return nil
			}
			var plain []string
			for _, fl := range c.Flags {
				if fl != "--check" {
					plain = append(plain, fl)
				}
			}
			pargs := append([]string{"format"}, plain...)
			pstdin := ""
			if c.Mode == "inline" {
				pargs = append(pargs, f.Content)
			} else {
				pstdin = f.Content
			}
			pr, err := runCmd(dir, pstdin, binPath, pargs...)
			if err != nil {
				return fmt.Errorf("HARNESS: %v", err)
			}
			formatted := f.Content == pr.stdout || f.Content+"\n" == pr.stdout
			if (r.code == 0) != formatted {
				return fmt.Errorf("gosqlx format %s with the text %q given on %s exits %d, but without --check the same run prints %q", strings.Join(c.Flags, " "), clip(f.Content), c.Mode, r.code, clip(pr.stdout))
			}
			return nil
		}
		if (r.code == 0) != ok {
			return fmt.Errorf("gosqlx %s %s with the text %q given on %s exits with status %d, but the library %s it\n stderr: %s", c.Cmd, strings.Join(c.Flags, " "), clip(f.Content), c.Mode, r.code,
				map[bool]string{true: "accepts", false: "rejects"}[ok], clip(r.stderr))
		}
		return nil
	}
	after := snapshot(dir, c.Files)
	dialect := flagValue(c.Flags, "--dialect")
	strict := has(c.Flags, "--strict")
	var failing []string
	for _, f := range c.Files {
		if !accepts(f.Content, dialect, strict) {
			failing = append(failing, f.Name)
		}
	}
	sort.Strings(failing)
	// The library's own entry points disagree on empty input (parser.Validate accepts it,
	// gosqlx.Parse/Validate reject it), so a verdict that hinges on an empty file is not compared.
	hinges := false
	if len(failing) == 0 {
		for _, f := range c.Files {
			if f.Content == "" {
				hinges = true
			}
		}
	}
	desc := fmt.Sprintf("gosqlx %s (files: %v)", strings.Join(args, " "), describe(c.Files))

	switch c.Cmd {
	case "validate", "parse":
		wantOK := len(failing) == 0
		if (r.code == 0) != wantOK && !hinges {
			return fmt.Errorf("%s exits with status %d, but the library rejects %v\n stderr: %s", desc, r.code, failing, clip(r.stderr))
		}
		if fmt.Sprint(before) != fmt.Sprint(after) {
			return fmt.Errorf("%s modified an input file (a check-only command must not)", desc)
		}
		if hinges {
			return nil
		}
		if of := flagValue(c.Flags, "--output-format"); of == "json" || of == "sarif" {
			data := r.stdout
			if out := flagValue(c.Flags, "--output-file"); out != "" {
				b, err := os.ReadFile(filepath.Join(dir, out))
				if err != nil {
					return fmt.Errorf("%s did not write the report file %s: %v", desc, out, err)
				}
				data = string(b)
			}
			if err := checkReport(of, data, c.Files, failing); err != nil {
				return fmt.Errorf("%s: %v", desc, err)
			}
		}
	case "format":
		wantOK := len(failing) == 0
		if has(c.Flags, "--check") {
			if fmt.Sprint(before) != fmt.Sprint(after) {
				return fmt.Errorf("%s modified an input file (--check must not)", desc)
			}
			if !wantOK && r.code == 0 {
				return fmt.Errorf("%s exits 0 although the library rejects %v", desc, failing)
			}
			return nil
		}
		if (r.code == 0) != wantOK && !hinges {
			return fmt.Errorf("%s exits with status %d, but the library rejects %v\n stderr: %s", desc, r.code, failing, clip(r.stderr))
		}
		if has(c.Flags, "-i") {
			for _, f := range failing {
				if before[f] != after[f] {
					return fmt.Errorf("%s rewrote %s although processing of that file failed", desc, f)
				}
			}
		} else if fmt.Sprint(before) != fmt.Sprint(after) {
			return fmt.Errorf("%s modified an input file without -i", desc)
		}
	case "lint":
		max := 100
		errors, warnings := 0, 0
		for _, f := range c.Files {
			res := linter.New(cliLintRules(max)...).LintString(f.Content, f.Name)
			for _, v := range res.Violations {
				switch v.Severity {
				case linter.SeverityError:
					errors++
				case linter.SeverityWarning:
					warnings++
				}
			}
		}
		wantOK := errors == 0 && !(has(c.Flags, "--fail-on-warn") && warnings > 0)
		if (r.code == 0) != wantOK {
			return fmt.Errorf("%s exits with status %d, the library's linter finds %d errors and %d warnings\n stdout: %s", desc, r.code, errors, warnings, clip(r.stdout))
		}
		if !has(c.Flags, "--auto-fix") && fmt.Sprint(before) != fmt.Sprint(after) {
			return fmt.Errorf("%s modified an input file without --auto-fix", desc)
		}
	}
	return nil
}

// startsWithStatementKeyword: the documented inline form is a statement given as the argument; the command tells
// it from a file name by its first word. Any other text can only be given through a file or stdin.
func startsWithStatementKeyword(s string) bool {
	f := strings.Fields(s)
	if len(f) == 0 || !(strings.HasPrefix(s, f[0])) {
		return false
	}
	switch strings.ToUpper(f[0]) {
	case "SELECT", "INSERT", "UPDATE", "DELETE", "CREATE", "DROP", "ALTER", "TRUNCATE", "WITH", "MERGE", "SHOW", "DESCRIBE", "REFRESH", "REPLACE":
		return true
	}
	return false
}

func describe(files []File) string {
	var s []string
	for _, f := range files {
		s = append(s, fmt.Sprintf("%s=%q", f.Name, clip(f.Content)))
	}
	return strings.Join(s, " ")
}

func clip(s string) string {
	if len(s) > 220 {
		return s[:220] + "…"
	}
	return s
}

func checkReport(kind, data string, files []File, failing []string) error {
	switch kind {
	case "json":
		var rep struct {
			Status  string `json:"status"`
			Results struct {
				Valid        bool `json:"valid"`
				TotalFiles   int  `json:"total_files"`
				ValidFiles   int  `json:"valid_files"`
				InvalidFiles int  `json:"invalid_files"`
			} `json:"results"`
			Errors []struct {
				File string `json:"file"`
			} `json:"errors"`
		}
		dec := json.NewDecoder(strings.NewReader(data))
		if err := dec.Decode(&rep); err != nil {
			return fmt.Errorf("JSON report does not parse: %v\n report: %s", err, clip(data))
		}
		if rep.Results.TotalFiles != len(files) || rep.Results.InvalidFiles != len(failing) || rep.Results.ValidFiles != len(files)-len(failing) {
			return fmt.Errorf("JSON report counts total=%d valid=%d invalid=%d, want %d/%d/%d", rep.Results.TotalFiles, rep.Results.ValidFiles, rep.Results.InvalidFiles, len(files), len(files)-len(failing), len(failing))
		}
		if rep.Results.Valid != (len(failing) == 0) {
			return fmt.Errorf("JSON report says valid=%v with %d failing inputs", rep.Results.Valid, len(failing))
		}
		var got []string
		for _, e := range rep.Errors {
			got = append(got, filepath.Base(e.File))
		}
		sort.Strings(got)
		if fmt.Sprint(uniq(got)) != fmt.Sprint(failing) {
			return fmt.Errorf("JSON report names %v as failing, the failing inputs are %v", uniq(got), failing)
		}
	case "sarif":
		var rep struct {
			Version string `json:"version"`
			Runs    []struct {
				Tool    struct{ Driver struct{ Name string } } `json:"tool"`
				Results []struct {
					Message   struct{ Text string } `json:"message"`
					Locations []struct {
						PhysicalLocation struct {
							ArtifactLocation struct{ URI string } `json:"artifactLocation"`
						} `json:"physicalLocation"`
					} `json:"locations"`
				} `json:"results"`
			} `json:"runs"`
		}
		if err := json.Unmarshal([]byte(data), &rep); err != nil {
			return fmt.Errorf("SARIF report does not parse: %v\n report: %s", err, clip(data))
		}
		if rep.Version == "" || len(rep.Runs) != 1 {
			return fmt.Errorf("SARIF report lacks version or its single run")
		}
		var got []string
		for _, res := range rep.Runs[0].Results {
			for _, l := range res.Locations {
				got = append(got, filepath.Base(l.PhysicalLocation.ArtifactLocation.URI))
			}
		}
		sort.Strings(got)
		if fmt.Sprint(uniq(got)) != fmt.Sprint(failing) {
			return fmt.Errorf("SARIF report names %v as failing, the failing inputs are %v", uniq(got), failing)
		}
	}
	return nil
}

func uniq(xs []string) []string {
	var out []string
	for i, x := range xs {
		if i == 0 || x != xs[i-1] {
			out = append(out, x)
		}
	}
	return out
}

var cliCheck = hx.NewCheck("cli_verdict", oracleCLI)

func genContent(rt *rapid.T) (string, string) {
	f := sqlgen.FullFeatures()
	f.MaxDepth = 2
	switch rapid.IntRange(0, 9).Draw(rt, "content") {
	case 0, 1, 2, 3:
		return sqlgen.SQL(sqlgen.Statement(sqlgen.New(rt, f)).Toks), "valid"
	case 4:
		a := sqlgen.SQL(sqlgen.Statement(sqlgen.New(rt, f)).Toks)
		b := sqlgen.SQL(sqlgen.Statement(sqlgen.New(rt, f)).Toks)
		return a + ";\n" + b + ";\n", "valid_multi"
	case 5, 6:
		toks := sqlgen.Statement(sqlgen.New(rt, f)).Toks
		if len(toks) >= 2 {
			toks = corrupt.Apply(rt, toks).Toks
		}
		if len(toks) == 0 {
			return "FROM", "invalid"
		}
		return sqlgen.SQL(toks), "corrupted"
	case 7:
		return "", "empty"
	case 8:
		return ";; SELECT 1 ;;", "stray_semicolons"
	default:
		return "SELECT a FROM t1 LIMIT 5, 10", "mysql_only"
	}
}

// genLintContent: texts for the lint verdict: tidy (no finding), untidy (warnings), and texts whose
// only finding is of error severity (mixed tab/space indentation with everything else tidy).
func genLintContent(rt *rapid.T) (string, string) {
	f := sqlgen.AllFeatures()
	f.MaxDepth = 1
	f.KeywordCase = false
	toks := sqlgen.Statement(sqlgen.New(rt, f)).Toks
	switch rapid.IntRange(0, 3).Draw(rt, "lint_content") {
	case 0:
		return sqlgen.SQL(toks), "lint_tidy"
	case 1:
		return layoutSQL(rt, toks, true), "lint_untidy"
	default:
		// one line break followed by space+tab indentation, nothing else to complain about
		at := 1
		if len(toks) > 2 {
			at = rapid.IntRange(1, len(toks)-1).Draw(rt, "break_at")
		}
		var b strings.Builder
		for i, tk := range toks {
			switch {
			case i == at:
				b.WriteString("\n \t")
			case i > 0:
				b.WriteByte(' ')
			}
			b.WriteString(tk.Text)
		}
		return b.String(), "lint_error_only"
	}
}

func TestCLIVerdict(t *testing.T) {
	hx.Rule("cli_verdict", "the gosqlx binary built from the tree under test on generated file sets (1-4 files: valid, multi-statement, corrupted, empty, stray semicolons, MySQL-only syntax; names with spaces) x validate (text/json/sarif, --strict, --dialect, -q, --output-file) / format (-i, --check, both together, --compact, --no-uppercase, --indent) / lint (--fail-on-warn) / parse: exit status 0 iff the library (same dialect/strict options, CLI rule set) accepts every input; check-only modes leave every file byte-identical (hash, mode, mtime); JSON and SARIF reports parse, carry consistent counts and name exactly the failing inputs; -i never rewrites a file whose processing failed; non-trivial = mixed valid/invalid set; distinct = command + flags + verdict vector")
	if _, err := build(); err != nil {
		t.Fatalf("HARNESS: %v", err)
	}
	cliCheck.Rapid(t, hx.N(600, 8000), func(rt *rapid.T) CLICase {
		n := rapid.IntRange(1, 4).Draw(rt, "nfiles")
		var c CLICase
		var vec []string
		nameSet := []string{"a.sql", "b.sql", "my file.sql", "q-3.sql"}
		for i := 0; i < n; i++ {
			content, cl := genContent(rt)
			c.Files = append(c.Files, File{Name: nameSet[i], Content: content})
			vec = append(vec, cl)
		}
		c.Cmd = rapid.SampledFrom([]string{"validate", "validate", "format", "format", "lint", "parse"}).Draw(rt, "cmd")
		switch c.Cmd {
		case "validate":
			switch rapid.IntRange(0, 5).Draw(rt, "vfmt") {
			case 1:
				c.Flags = append(c.Flags, "--output-format", "json")
			case 2:
				c.Flags = append(c.Flags, "--output-format", "sarif")
			case 3:
				c.Flags = append(c.Flags, "--output-format", "json", "--output-file", "report.json")
			case 4:
				c.Flags = append(c.Flags, "--output-format", "sarif", "--output-file", "report.sarif")
			case 5:
				c.Flags = append(c.Flags, "-q")
			}
			if rapid.IntRange(0, 3).Draw(rt, "strict") == 0 {
				c.Flags = append(c.Flags, "--strict")
			}
			if rapid.IntRange(0, 3).Draw(rt, "dialect") == 0 {
				c.Flags = append(c.Flags, "--dialect", rapid.SampledFrom([]string{"mysql", "postgresql", "sqlite"}).Draw(rt, "d"))
			}
		case "format":
			for _, fl := range []string{"-i", "--check", "--compact", "--no-uppercase"} {
				if rapid.IntRange(0, 3).Draw(rt, "ff"+fl) == 0 {
					c.Flags = append(c.Flags, fl)
				}
			}
			// -i together with --check: the check-only mode wins, no file may change (oracle: --check branch)
			if rapid.IntRange(0, 3).Draw(rt, "indent") == 0 {
				c.Flags = append(c.Flags, "--indent", rapid.SampledFrom([]string{"0", "4", "8"}).Draw(rt, "iv"))
			}
		case "lint":
			if rapid.Bool().Draw(rt, "fow") {
				c.Flags = append(c.Flags, "--fail-on-warn")
			}
			for i := range c.Files {
				c.Files[i].Content, vec[i] = genLintContent(rt)
			}
			if rapid.IntRange(0, 2).Draw(rt, "lint_direct") == 0 {
				// the same text on stdin or as the argument, sometimes with the security scan and a text it objects to
				c.Mode = rapid.SampledFrom([]string{"stdin", "inline"}).Draw(rt, "lintmode")
				c.Files, vec = c.Files[:1], vec[:1]
				if rapid.Bool().Draw(rt, "lint_security") {
					c.Flags = append(c.Flags, "--security")
					if rapid.Bool().Draw(rt, "lint_injection") {
						c.Files[0].Content = "SELECT * FROM users WHERE name = 'a' OR 1=1"
						vec[0] = "lint_injection"
					}
				}
				if first := c.Files[0].Content; c.Mode == "inline" && !startsWithStatementKeyword(first) {
					c.Mode = "stdin"
				}
				if c.Mode == "stdin" && c.Files[0].Content == "" {
					c.Mode = ""
				}
			}
		case "parse":
			c.Files = c.Files[:1]
			vec = vec[:1]
		}
		if (c.Cmd == "validate" || c.Cmd == "parse" || c.Cmd == "format") && rapid.IntRange(0, 3).Draw(rt, "direct") == 0 {
			c.Mode = rapid.SampledFrom([]string{"stdin", "inline"}).Draw(rt, "mode")
			c.Files, vec = c.Files[:1], vec[:1]
			var keep []string
			for i := 0; i < len(c.Flags); i++ { // flags that only make sense with files are dropped
				switch c.Flags[i] {
				case "-i":
				case "--check":
					if c.Cmd == "format" && !has(c.Flags, "-i") {
						keep = append(keep, "--check") // the check-only verdict applies to a text given directly too
					}
				case "--output-file":
					i++
				default:
					keep = append(keep, c.Flags[i])
				}
			}
			c.Flags = keep
			// inline SQL is told from a file name by its first word (the documented form starts with a
			// statement keyword); anything else can only be given through a file or stdin
			if first := c.Files[0].Content; c.Mode == "inline" && !startsWithStatementKeyword(first) {
				c.Mode = "stdin"
			}
			if c.Mode == "stdin" && c.Files[0].Content == "" {
				c.Mode = ""
			}
		}
		mixed := false
		for _, v := range vec {
			if v == "corrupted" || v == "stray_semicolons" || v == "mysql_only" {
				mixed = true
			}
		}
		hx.Case("cli_verdict", mixed && len(vec) > 1 || c.Mode != "", c.Cmd+c.Mode+strings.Join(c.Flags, " ")+strings.Join(vec, ","), "cmd_"+c.Cmd, "mode_"+c.Mode)
		hx.Sample("cli_verdict", map[string]interface{}{"cmd": c.Cmd, "flags": c.Flags, "files": vec})
		return c
	})
}

// ---------------------------------------------------------------- format consistency

type FmtCase struct {
	Flags []string `json:"flags"`
	Files []File   `json:"files"`
}

func oracleFormatConsistency(c FmtCase) error {
	var names []string
	for _, f := range c.Files {
		names = append(names, f.Name)
	}
	run := func(extra ...string) (runResult, map[string]string, error) {
		dir, err := setup(c.Files)
		if err != nil {
			return runResult{}, nil, fmt.Errorf("HARNESS: %v", err)
		}
		defer os.RemoveAll(dir)
		args := append([]string{"format"}, c.Flags...)
		args = append(args, extra...)
		args = append(args, names...)
		r, err := runCmd(dir, "", binPath, args...)
		if err != nil {
			return r, nil, fmt.Errorf("HARNESS: %v", err)
		}
		out := map[string]string{}
		ents, _ := os.ReadDir(dir)
		for _, e := range ents {
			b, _ := os.ReadFile(filepath.Join(dir, e.Name()))
			out[e.Name()] = string(b)
		}
		return r, out, nil
	}
	desc := fmt.Sprintf("gosqlx format %s (files: %s)", strings.Join(c.Flags, " "), describe(c.Files))
	runOne := func(f File) (runResult, error) {
		dir, err := setup([]File{f})
		if err != nil {
			return runResult{}, fmt.Errorf("HARNESS: %v", err)
		}
		defer os.RemoveAll(dir)
		r, err := runCmd(dir, "", binPath, append(append([]string{"format"}, c.Flags...), f.Name)...)
		if err != nil {
			return r, fmt.Errorf("HARNESS: %v", err)
		}
		return r, nil
	}
	rOut, _, err := run()
	if err != nil {
		return err
	}
	rIn, written, err := run("-i")
	if err != nil {
		return err
	}
	rChk, _, err := run("--check")
	if err != nil {
		return err
	}
	// what the text output must be, given what -i wrote and what each file gives on its own
	var want, wantSingles strings.Builder
	anyFail, anyChanged := false, false
	for _, f := range c.Files {
		if f.Content == "" {
			return nil // verdict on an empty file is not defined by the library (see oracleCLI)
		}
		single, err := runOne(f)
		if err != nil {
			return err
		}
		wantSingles.WriteString(single.stdout)
		failed := single.code != 0
		if !accepts(f.Content, "", false) && !failed {
			return fmt.Errorf("%s: %s alone is formatted with exit 0 although the library rejects it", desc, f.Name)
		}
		if failed {
			anyFail = true
			if written[f.Name] != f.Content {
				return fmt.Errorf("%s: -i rewrote %s although processing of that file fails (exit %d when formatted alone)", desc, f.Name, single.code)
			}
			continue
		}
		w := written[f.Name]
		if w != f.Content {
			anyChanged = true
		}
		want.WriteString(w)
		if !strings.HasSuffix(w, "\n") {
			want.WriteString("\n")
		}
	}
	if rOut.stdout != wantSingles.String() {
		return fmt.Errorf("%s prints\n%q\nbut the files formatted one at a time give\n%q", desc, rOut.stdout, wantSingles.String())
	}
	if (rOut.code == 0) != !anyFail {
		return fmt.Errorf("%s exits %d, but formatting the files one at a time %s", desc, rOut.code, map[bool]string{true: "fails for one", false: "succeeds for all"}[anyFail])
	}
	if rOut.stdout != want.String() {
		return fmt.Errorf("%s prints\n%q\nbut -i writes\n%q", desc, rOut.stdout, want.String())
	}
	if (rOut.code == 0) != (rIn.code == 0) {
		return fmt.Errorf("%s exits %d, with -i %d", desc, rOut.code, rIn.code)
	}
	if !anyFail {
		if (rChk.code == 0) != !anyChanged {
			return fmt.Errorf("%s: --check exits %d but -i %s", desc, rChk.code, map[bool]string{true: "changes a file", false: "changes nothing"}[anyChanged])
		}
		if len(c.Files) == 1 {
			// -o writes the same text
			_, files, err := run("-o", "out.txt")
			if err != nil {
				return err
			}
			if got := files["out.txt"]; got != written[c.Files[0].Name] {
				return fmt.Errorf("%s: -o writes %q but -i writes %q", desc, got, written[c.Files[0].Name])
			}
			// the text the command prints is itself formatted: saved to a file it passes --check, and -i leaves it alone
			pdir, err := setup([]File{{Name: "printed.sql", Content: rOut.stdout}})
			if err != nil {
				return fmt.Errorf("HARNESS: %v", err)
			}
			defer os.RemoveAll(pdir)
			rp, err := runCmd(pdir, "", binPath, append(append([]string{"format"}, c.Flags...), "--check", "printed.sql")...)
			if err != nil {
				return fmt.Errorf("HARNESS: %v", err)
			}
			if rp.code != 0 {
				return fmt.Errorf("%s prints %q; saved to a file, format --check with the same flags exits %d for it: %s", desc, rOut.stdout, rp.code, clip(rp.stderr))
			}
			if _, err := runCmd(pdir, "", binPath, append(append([]string{"format"}, c.Flags...), "-i", "printed.sql")...); err != nil {
				return fmt.Errorf("HARNESS: %v", err)
			}
			if b, _ := os.ReadFile(filepath.Join(pdir, "printed.sql")); string(b) != rOut.stdout {
				return fmt.Errorf("%s prints %q; saved to a file, format -i with the same flags rewrites it to %q", desc, rOut.stdout, string(b))
			}
			// stdin gives the same text
			dir, err := setup(nil)
			if err != nil {
				return fmt.Errorf("HARNESS: %v", err)
			}
			defer os.RemoveAll(dir)
			rs, err := runCmd(dir, c.Files[0].Content, binPath, append([]string{"format"}, c.Flags...)...)
			if err != nil {
				return fmt.Errorf("HARNESS: %v", err)
			}
			if strings.TrimSuffix(rs.stdout, "\n") != strings.TrimSuffix(rOut.stdout, "\n") || rs.code != rOut.code {
				return fmt.Errorf("%s: from stdin prints %q (exit %d), from the file %q (exit %d)", desc, rs.stdout, rs.code, rOut.stdout, rOut.code)
			}
		}
	} else if rChk.code == 0 {
		return fmt.Errorf("%s: --check exits 0 although a file cannot be processed", desc)
	}
	return nil
}

var fmtCheck = hx.NewCheck("format_modes_consistent", oracleFormatConsistency)

func genFormatFlags(rt *rapid.T) []string {
	var flags []string
	for _, fl := range []string{"--compact", "--no-uppercase"} {
		if rapid.IntRange(0, 3).Draw(rt, "ff"+fl) == 0 {
			flags = append(flags, fl)
		}
	}
	if rapid.IntRange(0, 3).Draw(rt, "indent") == 0 {
		flags = append(flags, "--indent", rapid.SampledFrom([]string{"0", "4", "8"}).Draw(rt, "iv"))
	}
	if rapid.IntRange(0, 5).Draw(rt, "maxline") == 0 {
		flags = append(flags, "--max-line", rapid.SampledFrom([]string{"20", "40", "200"}).Draw(rt, "ml"))
	}
	return flags
}

// layoutSQL renders tokens with untidy layout: lower-cased keywords, doubled spaces, tabs,
// trailing blanks and blank-line runs, so that format and lint --auto-fix have work to do.
func layoutSQL(rt *rapid.T, toks []sqlgen.Tok, mess bool) string {
	var b strings.Builder
	for i, tk := range toks {
		if i > 0 {
			sep := " "
			if mess {
				sep = rapid.SampledFrom([]string{" ", " ", " ", "  ", "\n", " \n", "\n\n\n\n", "\t", "\n\t  "}).Draw(rt, "sep")
			}
			b.WriteString(sep)
		}
		txt := tk.Text
		if mess && tk.KW && rapid.IntRange(0, 2).Draw(rt, "lc") == 0 {
			txt = strings.ToLower(txt)
		}
		b.WriteString(txt)
	}
	if mess && rapid.Bool().Draw(rt, "trail") {
		b.WriteString("  \n")
	}
	return b.String()
}

func TestFormatModesConsistent(t *testing.T) {
	hx.Rule("format_modes_consistent", "for one option set, three runs of the real binary on fresh copies of 1-3 generated files (untidy layout; some unparsable): text output == concatenation of what -i writes (newline-terminated), exit codes of text and -i agree, --check exits 0 iff -i changes nothing, -o and stdin give the same text, and the printed text saved to a file passes --check and is left alone by -i; non-trivial = at least one file is changed by -i; distinct = flags + per-file outcome")
	if _, err := build(); err != nil {
		t.Fatalf("HARNESS: %v", err)
	}
	fmtCheck.Rapid(t, hx.N(300, 4000), func(rt *rapid.T) FmtCase {
		f := sqlgen.AllFeatures()
		f.MaxDepth = 2
		n := rapid.IntRange(1, 3).Draw(rt, "nfiles")
		c := FmtCase{Flags: genFormatFlags(rt)}
		var cls []string
		for i := 0; i < n; i++ {
			toks := sqlgen.Statement(sqlgen.New(rt, f)).Toks
			kind := rapid.IntRange(0, 7).Draw(rt, "kind")
			var content string
			switch {
			case kind == 0 && len(toks) >= 2:
				content = sqlgen.SQL(corrupt.Apply(rt, toks).Toks)
				cls = append(cls, "corrupted")
			case kind == 1:
				content = layoutSQL(rt, toks, false)
				cls = append(cls, "tidy")
			case kind == 2:
				// parses, but the CLI formatter may not support the second statement
				content = layoutSQL(rt, toks, true) + " ;\n" + rapid.SampledFrom([]string{"TRUNCATE TABLE t1", "SHOW TABLES", "DESCRIBE t1", "REFRESH MATERIALIZED VIEW mv1"}).Draw(rt, "tail")
				cls = append(cls, "second_statement_maybe_unsupported")
			default:
				content = layoutSQL(rt, toks, true)
				cls = append(cls, "untidy")
			}
			c.Files = append(c.Files, File{Name: []string{"a.sql", "b c.sql", "d.sql"}[i], Content: content})
		}
		hx.Case("format_modes_consistent", true, strings.Join(c.Flags, " ")+strings.Join(cls, ","), "files_"+fmt.Sprint(n))
		hx.Sample("format_modes_consistent", map[string]interface{}{"flags": c.Flags, "files": cls, "first": clip(c.Files[0].Content)})
		return c
	})
}

// ---------------------------------------------------------------- in-place writes under faults

type FaultCase struct {
	Op      string   `json:"op"` // "format" or "lint"
	Flags   []string `json:"flags"`
	Content string   `json:"content"`
	Mode    uint32   `json:"mode"`
	// Link: "" = a plain file; "hard" = the file has a second hard link; "sym" = the path given is a
	// symbolic link to the file
	Link string `json:"link,omitempty"`
}

func (c FaultCase) args() []string {
	if c.Op == "lint" {
		return append([]string{"lint", "--auto-fix"}, append(c.Flags, "f.sql")...)
	}
	return append([]string{"format", "-i"}, append(c.Flags, "f.sql")...)
}

var straceOK = sync.OnceValue(func() bool {
	if _, err := exec.LookPath("strace"); err != nil {
		return false
	}
	out, err := exec.Command("strace", "-f", "-qq", "-e", "trace=write", "-o", "/dev/null", "true").CombinedOutput()
	return err == nil && len(out) == 0
})

const killSet = "%file,write,pwrite64,writev,close,fsync,fdatasync,ftruncate,fchmod,fchown"

func oracleFault(c FaultCase) error {
	if _, err := build(); err != nil {
		return fmt.Errorf("HARNESS: %v", err)
	}
	dir, err := os.MkdirTemp(workRoot, "fault-")
	if err != nil {
		return fmt.Errorf("HARNESS: %v", err)
	}
	defer os.RemoveAll(dir)
	target := filepath.Join(dir, "f.sql")
	mode := os.FileMode(c.Mode)
	if mode == 0 {
		mode = 0o644
	}
	other := filepath.Join(dir, "other-name.sql")
	restore := func() error {
		os.Remove(target)
		os.Remove(other)
		switch c.Link {
		case "sym":
			if err := os.WriteFile(other, []byte(c.Content), mode); err != nil {
				return err
			}
			if err := os.Chmod(other, mode); err != nil {
				return err
			}
			return os.Symlink("other-name.sql", target)
		case "hard":
			if err := os.WriteFile(target, []byte(c.Content), mode); err != nil {
				return err
			}
			if err := os.Chmod(target, mode); err != nil {
				return err
			}
			return os.Link(target, other)
		}
		if err := os.WriteFile(target, []byte(c.Content), mode); err != nil {
			return err
		}
		return os.Chmod(target, mode)
	}
	if err := restore(); err != nil {
		return fmt.Errorf("HARNESS: %v", err)
	}
	desc := fmt.Sprintf("gosqlx %s on %q", strings.Join(c.args(), " "), clip(c.Content))
	r, err := runCmd(dir, "", binPath, c.args()...)
	if err != nil {
		return fmt.Errorf("HARNESS: %v", err)
	}
	nb, err := os.ReadFile(target)
	if err != nil {
		return fmt.Errorf("%s: the file is gone after an undisturbed run: %v", desc, err)
	}
	newContent := string(nb)
	if c.Op == "format" && r.code != 0 && newContent != c.Content {
		return fmt.Errorf("%s failed (exit %d) but changed the file", desc, r.code)
	}
	if st, err := os.Stat(target); err == nil && st.Mode().Perm() != mode.Perm() {
		hx.Class("inplace_faults", "mode_changed_by_rewrite")
	}
	verdict := func(how string) error {
		b, err := os.ReadFile(target)
		if err != nil {
			return fmt.Errorf("%s, %s: the file is gone: %v", desc, how, err)
		}
		if s := string(b); s != c.Content && s != newContent {
			return fmt.Errorf("%s, %s: the file holds %q (%d bytes), neither the original (%d bytes) nor the complete new content %q (%d bytes)", desc, how, clip(s), len(s), len(c.Content), clip(newContent), len(newContent))
		}
		return nil
	}
	if newContent == c.Content {
		hx.Class("inplace_faults", "nothing_to_rewrite")
	}
	// (1) a write failure after k bytes, for every k, as a short write followed by EFBIG
	for k := 0; k <= len(newContent); k++ {
		for _, block := range []string{"1", "0"} {
			if err := restore(); err != nil {
				return fmt.Errorf("HARNESS: %v", err)
			}
			args := append([]string{fmt.Sprint(k), block, binPath}, c.args()...)
			if _, err := runCmd(dir, "", fsizeBin, args...); err != nil {
				return fmt.Errorf("HARNESS: %v", err)
			}
			hx.Class("inplace_faults", "fault_runs")
			if err := verdict(fmt.Sprintf("write failing after %d bytes (RLIMIT_FSIZE, SIGXFSZ %s)", k, map[string]string{"1": "blocked", "0": "default"}[block])); err != nil {
				return err
			}
		}
	}
	// (2) the process killed before its n-th file-related system call, for every n
	if straceOK() && (hx.Tier() == "thorough" || len(newContent) < 80) {
		for n := 1; n < 400; n++ {
			if err := restore(); err != nil {
				return fmt.Errorf("HARNESS: %v", err)
			}
			args := append([]string{"-f", "-qq", "-e", "trace=" + killSet, "-e", fmt.Sprintf("inject=%s:signal=SIGKILL:when=%d", killSet, n), "-o", "/dev/null", binPath}, c.args()...)
			res, err := runCmd(dir, "", "strace", args...)
			if err != nil {
				return fmt.Errorf("HARNESS: %v", err)
			}
			hx.Class("inplace_faults", "fault_runs")
			if err := verdict(fmt.Sprintf("process killed before its file-related system call #%d", n)); err != nil {
				return err
			}
			if res.code == r.code && res.code >= 0 && res.code < 128 {
				break // ran to completion: every earlier call has been a kill point
			}
		}
	}
	return nil
}

var faultCheck = hx.NewCheck("inplace_faults", oracleFault)

func TestInPlaceFaults(t *testing.T) {
	hx.Rule("inplace_faults", "format -i (flag combinations) and lint --auto-fix on one generated untidy file with mode 0644/0600/0664 that is a plain file, has a second hard link, or is reached through a symbolic link: first an undisturbed run gives the new content; then for EVERY k in 0..len(new) the command runs under RLIMIT_FSIZE=k (write fails after exactly k bytes; SIGXFSZ blocked and default) and, via strace fault injection, is SIGKILLed before its n-th file-related system call for every n until it completes; after each run the file must equal the complete original or the complete new content; non-trivial = the undisturbed run rewrites the file; distinct = op + flags + content hash; evaluations counts fault runs")
	if _, err := build(); err != nil {
		t.Fatalf("HARNESS: %v", err)
	}
	hx.Exhaustive("inplace_faults", true) // per case: every byte offset and every system-call boundary
	if !straceOK() {
		hx.Note("inplace_faults", "strace fault injection unavailable: kill points not enumerated")
	}
	faultCheck.Rapid(t, hx.N(40, 400), func(rt *rapid.T) FaultCase {
		f := sqlgen.AllFeatures()
		f.MaxDepth = 1
		f.Flat = true
		toks := sqlgen.Statement(sqlgen.New(rt, f)).Toks
		c := FaultCase{Op: rapid.SampledFrom([]string{"format", "format", "lint"}).Draw(rt, "op")}
		c.Content = layoutSQL(rt, toks, true)
		if rapid.IntRange(0, 5).Draw(rt, "corrupt") == 0 && len(toks) >= 2 {
			c.Content = sqlgen.SQL(corrupt.Apply(rt, toks).Toks)
		}
		if c.Op == "format" {
			c.Flags = genFormatFlags(rt)
		}
		c.Mode = rapid.SampledFrom([]uint32{0o644, 0o600, 0o664}).Draw(rt, "mode")
		c.Link = rapid.SampledFrom([]string{"", "", "hard", "sym"}).Draw(rt, "link")
		hx.Case("inplace_faults", true, c.Op+c.Link+strings.Join(c.Flags, " ")+fmt.Sprintf("%x", sha256.Sum256([]byte(c.Content)))[:12], "op_"+c.Op, "link_"+c.Link)
		hx.Sample("inplace_faults", map[string]interface{}{"op": c.Op, "flags": c.Flags, "content": clip(c.Content)})
		return c
	})
}
