package c11

import (
	"context"
	"errors"
	"fmt"
	"strings"
	"testing"

	"github.com/ajitpratap0/GoSQLX/pkg/gosqlx"
	"github.com/ajitpratap0/GoSQLX/pkg/models"
	"github.com/ajitpratap0/GoSQLX/pkg/sql/ast"
	"github.com/ajitpratap0/GoSQLX/pkg/sql/parser"
	"github.com/ajitpratap0/GoSQLX/pkg/sql/tokenizer"
	"pgregory.net/rapid"
	"verif/gen/sqlgen"
	"verif/internal/astdump"
	"verif/internal/cctx"
	"verif/internal/hx"
)

func TestMain(m *testing.M) { hx.Main(m, "C11") }

type CancelCase struct {
	SQL   string `json:"sql"`
	Entry string `json:"entry"` // gosqlx | tokenizer | parser
}

const maxExhaustive = 400

var ctxErrs = []error{context.Canceled, context.DeadlineExceeded}

// runEntry calls the entry point with ctx on the given (possibly reused) instances.
func runEntry(entry string, ctx context.Context, sql string, tkz *tokenizer.Tokenizer, p *parser.Parser) (string, error) {
	switch entry {
	case "gosqlx":
		t, err := gosqlx.ParseWithContext(ctx, sql)
		if err != nil {
			if t != nil {
				return "", fmt.Errorf("TREE-WITH-ERROR")
			}
			return "", err
		}
		return astdump.Dump(t.Statements), nil
	case "tokenizer":
		toks, err := tkz.TokenizeContext(ctx, []byte(sql))
		if err != nil {
			if toks != nil {
				return "", fmt.Errorf("TOKENS-WITH-ERROR")
			}
			return "", err
		}
		return astdump.Dump(toks), nil
	default:
		tk, _ := tokenizer.New()
		toks, err := tk.Tokenize([]byte(sql))
		if err != nil {
			return "", err
		}
		t, err := p.ParseContextFromModelTokens(ctx, toks)
		if err != nil {
			if t != nil {
				return "", fmt.Errorf("TREE-WITH-ERROR")
			}
			return "", err
		}
		return astdump.Dump(t.Statements), nil
	}
}

func contextFree(entry, sql string) (string, error) {
	switch entry {
	case "gosqlx":
		t, err := gosqlx.Parse(sql)
		if err != nil {
			return "", err
		}
		return astdump.Dump(t.Statements), nil
	case "tokenizer":
		tk, _ := tokenizer.New()
		toks, err := tk.Tokenize([]byte(sql))
		if err != nil {
			return "", err
		}
		return astdump.Dump(toks), nil
	default:
		tk, _ := tokenizer.New()
		toks, err := tk.Tokenize([]byte(sql))
		if err != nil {
			return "", err
		}
		t, err := parser.NewParser().ParseFromModelTokens(toks)
		if err != nil {
			return "", err
		}
		return astdump.Dump(t.Statements), nil
	}
}

func errText(err error) string {
	if err == nil {
		return ""
	}
	return err.Error()
}

// probe: the instances used by a cancelled call must answer like fresh ones
// (it nests exactly as deep as a fresh parser accepts, so one leaked recursion level shows)
var probeSQL = func() string {
	deepest := 1
	for d := 1; d < 400; d++ {
		if _, err := gosqlx.Parse("SELECT " + strings.Repeat("(", d) + "1" + strings.Repeat(")", d)); err != nil {
			break
		}
		deepest = d
	}
	return "SELECT a, " + strings.Repeat("(", deepest) + "b + 1" + strings.Repeat(")", deepest) + " FROM t1 WHERE c IN (1, 2) ORDER BY a"
}()

func probe(tkz *tokenizer.Tokenizer, p *parser.Parser) string {
	toks, err := tkz.Tokenize([]byte(probeSQL))
	if err != nil {
		return "ERR " + err.Error()
	}
	var t *ast.AST
	t, err = p.ParseFromModelTokens(toks)
	if err != nil {
		return "ERR " + err.Error()
	}
	return astdump.Dump(toks) + astdump.Dump(t.Statements) + astdump.Dump(append([]models.Comment(nil), tkz.Comments...))
}

var freshProbe = func() string {
	tk, _ := tokenizer.New()
	return probe(tk, parser.NewParser())
}()

const (
	residueA = "SELECT a, b FROM t1 WHERE a = 1; SELECT 2"
	residueB = "UPDATE t2 SET c = 3 WHERE d IN (SELECT e FROM t3)"
)

var residueWantA, residueWantB = func() (string, string) {
	a, _ := gosqlx.Parse(residueA)
	b, _ := gosqlx.Parse(residueB)
	return astdump.Dump(a.Statements), astdump.Dump(b.Statements)
}()

func oracleCancel(c CancelCase) error {
	// 1. a context that never fires: same result as the context-free call
	never := cctx.New(-1, nil)
	tk, _ := tokenizer.New()
	r0, e0 := runEntry(c.Entry, never, c.SQL, tk, parser.NewParser())
	rf, ef := contextFree(c.Entry, c.SQL)
	if r0 != rf || (e0 == nil) != (ef == nil) {
		return fmt.Errorf("[%s] a context that never fires changes the result: with context err=%q, without err=%q", c.Entry, short(e0), short(ef))
	}
	if e0 != nil && ef != nil && codeless(e0) != codeless(ef) {
		// wrappers differ ("tokenization failed:" prefixes); compare the innermost message only
	}
	P := never.Polls
	hx.Class("cancel_every_poll", fmt.Sprintf("polls_%s", bucket(P)))
	// 2. fire at every poll index
	step := 1
	if P > maxExhaustive {
		step = (P + maxExhaustive - 1) / maxExhaustive
	}
	for k := 0; k < P; k += step {
		for _, ce := range ctxErrs {
			ctx := cctx.New(k, ce)
			tkz, _ := tokenizer.New()
			p := parser.NewParser()
			r, err := runEntry(c.Entry, ctx, c.SQL, tkz, p)
			if ctx.Polls <= k {
				// the call ended (e.g. with its own error) before reaching poll k: nothing fired
				continue
			}
			hx.Class("cancel_every_poll", "fired")
			if err == nil {
				return fmt.Errorf("[%s] context done at poll %d of %d (%v) but the call returned a result (%d chars) and no error", c.Entry, k, P, ce, len(r))
			}
			if err.Error() == "TREE-WITH-ERROR" || err.Error() == "TOKENS-WITH-ERROR" {
				return fmt.Errorf("[%s] context done at poll %d of %d: a value was returned together with the error", c.Entry, k, P)
			}
			if !errors.Is(err, ce) {
				return fmt.Errorf("[%s] context done at poll %d of %d with %v, but the returned error does not match it under errors.Is: %q", c.Entry, k, P, ce, short(err))
			}
			other := context.Canceled
			if ce == context.Canceled {
				other = context.DeadlineExceeded
			}
			if errors.Is(err, other) {
				return fmt.Errorf("[%s] context done with %v but the error also matches %v", c.Entry, ce, other)
			}
			if ctx.After > 3 {
				return fmt.Errorf("[%s] context done at poll %d of %d: the call went on to poll %d more times before returning", c.Entry, k, P, ctx.After)
			}
			if c.Entry != "gosqlx" {
				if got := probe(tkz, p); got != freshProbe {
					return fmt.Errorf("[%s] after a call cancelled at poll %d of %d the same tokenizer/parser answers a probe differently from fresh ones: %s", c.Entry, k, P, astdump.Diff(got, freshProbe))
				}
			}
			// residue in the shared pools: two trees obtained after the cancelled call and held at the
			// same time must be two trees (a value released twice would be handed out twice)
			a, errA := gosqlx.Parse(residueA)
			b, errB := gosqlx.Parse(residueB)
			if errA != nil || errB != nil {
				return fmt.Errorf("[%s] after a call cancelled at poll %d of %d a plain parse fails: %v / %v", c.Entry, k, P, errA, errB)
			}
			if a == b {
				return fmt.Errorf("[%s] after a call cancelled at poll %d of %d (%v) two parses return the same *ast.AST while both are held", c.Entry, k, P, ce)
			}
			if got := astdump.Dump(a.Statements); got != residueWantA {
				return fmt.Errorf("[%s] after a call cancelled at poll %d of %d a held tree changed when the next one was parsed: %s", c.Entry, k, P, astdump.Diff(got, residueWantA))
			}
			if got := astdump.Dump(b.Statements); got != residueWantB {
				return fmt.Errorf("[%s] after a call cancelled at poll %d of %d the second tree is wrong: %s", c.Entry, k, P, astdump.Diff(got, residueWantB))
			}
		}
	}
	return nil
}

func codeless(err error) string { return err.Error() }

func bucket(n int) string {
	switch {
	case n <= 2:
		return "le2"
	case n <= 10:
		return "3_10"
	case n <= 50:
		return "11_50"
	default:
		return "gt50"
	}
}

func short(err error) string {
	if err == nil {
		return "<nil>"
	}
	s := err.Error()
	if i := strings.IndexByte(s, '\n'); i >= 0 {
		s = s[:i]
	}
	if len(s) > 200 {
		s = s[:200]
	}
	return s
}

var cancelCheck = hx.NewCheck("cancel_every_poll", oracleCancel)

func features() sqlgen.Features {
	f := sqlgen.FullFeatures()
	f.MaxDepth = 3
	return f
}

func TestCancelEveryPoll(t *testing.T) {
	hx.Rule("cancel_every_poll", "G-SQL statements (incl. long ones so the tokenizer polls) x {gosqlx.ParseWithContext, Tokenizer.TokenizeContext, Parser.ParseContextFromModelTokens}; a counting context first never fires (result must equal the context-free call, P polls counted), then fires at EVERY poll index k < P (evenly sampled above 400) with Canceled and DeadlineExceeded: no value, errors.Is matches exactly that error, <= 3 further polls, used instances answer a probe like fresh ones; non-trivial = P >= 3; distinct = entry + poll count + feature set")
	cancelCheck.Rapid(t, hx.N(800, 40000), genCancellation)
}

// genCancellation is the case generator of cancelCheck (shared by the rapid run and the native fuzz target).
func genCancellation(rt *rapid.T) CancelCase {
	g := sqlgen.New(rt, features())
	st := sqlgen.Statement(g)
	sql := sqlgen.SQL(st.Toks)
	entry := rapid.SampledFrom([]string{"gosqlx", "parser", "parser", "tokenizer"}).Draw(rt, "entry")
	if entry == "tokenizer" || rapid.IntRange(0, 5).Draw(rt, "long") == 0 {
		// make the token stream long enough for the tokenizer's every-100-tokens poll
		n := rapid.IntRange(1, 6).Draw(rt, "repeat")
		sql = sql + strings.Repeat(" ; "+sql, n*3)
	}
	var cl []string
	for k := range st.Stats {
		cl = append(cl, k)
	}
	hx.Case("cancel_every_poll", len(st.Toks) >= 6, entry+"|"+strings.Join(cl, ",")+fmt.Sprint(len(st.Toks)/5), "entry_"+entry)
	hx.Sample("cancel_every_poll", CancelCase{SQL: sql, Entry: entry})
	return CancelCase{SQL: sql, Entry: entry}
}

// FuzzCancellation: coverage-guided search over the same generator (thorough tier).
func FuzzCancellation(f *testing.F) { cancelCheck.Fuzz(f, genCancellation) }
