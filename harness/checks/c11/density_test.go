package c11

import (
	"context"
	"fmt"
	"runtime"
	"testing"

	"github.com/ajitpratap0/GoSQLX/pkg/gosqlx"
	"github.com/ajitpratap0/GoSQLX/pkg/sql/parser"
	"github.com/ajitpratap0/GoSQLX/pkg/sql/tokenizer"
	"verif/gen/famgen"
	"verif/internal/cctx"
	"verif/internal/hx"
)

// "After a bounded amount of further work": the library can only notice a context that
// is done when it looks at it, so the work between two looks must not grow with the
// input. The looks of an uncancelled run are counted on inputs of one family at two
// sizes: their number must grow with the number of tokens (and comments) the call
// works through. A family whose count stays flat is one in which a context that fires
// after the last look is never noticed - the call returns a tree for a cancelled context
// after work proportional to the rest of the input.
type DensityCase struct {
	Family string `json:"family"`
	Entry  string `json:"entry"` // tokenizer | parser | gosqlx
	Small  int    `json:"small"` // bytes
	Large  int    `json:"large"`
}

// one look per lookEvery items is ten times sparser than the documentation promises
// (TokenizeContext: every 100 tokens; ParseContext: every 10-20 operations)
const lookEvery = 1000

func render(family string, n int) string {
	for _, f := range famgen.Lexical {
		if f.Name == family {
			return f.Render(n)
		}
	}
	for _, c := range famgen.Compositions {
		if "comp:"+c.Name == family {
			return c.Compose(famgen.DefaultUnit(c.Unit), n)
		}
	}
	return ""
}

// looks runs the entry under a context that never fires and returns the number of looks,
// the number of items (tokens + comments) of the input and whether the call succeeded.
func looks(entry, sql string) (polls, items int, ok bool) {
	tk, _ := tokenizer.New()
	toks, err := tk.Tokenize([]byte(sql))
	if err != nil {
		return 0, 0, false
	}
	items = len(toks) + len(tk.Comments)
	ctx := cctx.New(-1, nil)
	switch entry {
	case "tokenizer":
		t2, _ := tokenizer.New()
		_, err = t2.TokenizeContext(ctx, []byte(sql))
	case "parser":
		items = len(toks)
		p := parser.NewParser()
		defer p.Release()
		_, err = p.ParseContextFromModelTokens(ctx, toks)
	default:
		_, err = gosqlx.ParseWithContext(ctx, sql)
	}
	return ctx.Polls, items, err == nil
}

func oracleDensity(c DensityCase) error {
	small, large := render(c.Family, c.Small), render(c.Family, c.Large)
	if small == "" || large == "" {
		return nil
	}
	p1, n1, ok1 := looks(c.Entry, small)
	p2, n2, ok2 := looks(c.Entry, large)
	if !ok1 || !ok2 || n2 < 2*n1 || n2 < 4*lookEvery {
		hx.Class("poll_density", "family_rejected_or_few_items")
		return nil // rejected input stops where the error is; one huge lexeme is one item
	}
	if p2*lookEvery < n2 {
		return fmt.Errorf("[%s] family %s: %d tokens/comments are worked through with %d looks at the context (%d looks for %d items at the smaller size): a context that is done after the last look is never noticed, and between looks the work grows with the input", c.Entry, c.Family, n2, p2, p1, n1)
	}
	if p2 < 2*p1 {
		return fmt.Errorf("[%s] family %s: the input grew from %d to %d items but the looks at the context only from %d to %d", c.Entry, c.Family, n1, n2, p1, p2)
	}
	// a context that is already done costs nothing, however large the input
	tk, _ := tokenizer.New()
	toks, err := tk.Tokenize([]byte(large))
	if err != nil {
		return nil
	}
	done := cctx.New(0, context.Canceled)
	var m0, m1 runtime.MemStats
	runtime.ReadMemStats(&m0)
	switch c.Entry {
	case "tokenizer":
		t2, _ := tokenizer.New()
		_, err = t2.TokenizeContext(done, []byte(large))
	case "parser":
		p := parser.NewParser()
		_, err = p.ParseContextFromModelTokens(done, toks)
		p.Release()
	default:
		_, err = gosqlx.ParseWithContext(done, large)
	}
	runtime.ReadMemStats(&m1)
	if err == nil {
		return fmt.Errorf("[%s] family %s: a context that is done on entry is not reported", c.Entry, c.Family)
	}
	if d := m1.TotalAlloc - m0.TotalAlloc; d > 256<<10 && d > uint64(len(large))/4 {
		return fmt.Errorf("[%s] family %s: the context is done on entry, yet the call allocates %d bytes for an input of %d bytes (%d tokens) before it returns", c.Entry, c.Family, d, len(large), len(toks))
	}
	return nil
}

var densityCheck = hx.NewCheck("poll_density", oracleDensity)

func TestPollDensity(t *testing.T) {
	hx.Rule("poll_density", fmt.Sprintf("every family of the C20 catalogue (%d compositions, %d lexical families: chains, lists, comment runs, DDL and MERGE lists) at 32 KiB and 128 KiB x {TokenizeContext, ParseContextFromModelTokens, gosqlx.ParseWithContext} under a counting context that never fires; for accepted inputs of at least %d items the number of looks at the context must be at least items/%d (ten times sparser than documented) and at least double when the input quadruples; a context done on entry must be reported after allocating less than 256 KiB (or a quarter of the input); exhaustive over (family, entry); non-trivial = the family is accepted and large enough", len(famgen.Compositions), len(famgen.Lexical), 4*lookEvery, lookEvery))
	if hx.Shard() != 0 {
		t.Skip("enumeration runs on shard 0 only")
	}
	var fams []string
	for _, c := range famgen.Compositions {
		fams = append(fams, "comp:"+c.Name)
	}
	for _, f := range famgen.Lexical {
		fams = append(fams, f.Name)
	}
	for _, f := range fams {
		for _, e := range []string{"tokenizer", "parser", "gosqlx"} {
			c := DensityCase{Family: f, Entry: e, Small: 32 << 10, Large: 128 << 10}
			if !hx.Allowed("c11.density." + f) {
				continue
			}
			_, n, ok := looks(e, render(f, c.Large))
			hx.Case("poll_density", ok && n >= 4*lookEvery, f+"|"+e, "entry_"+e)
			hx.Sample("poll_density", c)
			densityCheck.One(t, c)
		}
	}
	hx.Exhaustive("poll_density", true)
}
