package c16

import (
	"fmt"
	"sort"
	"strings"
	"testing"

	"github.com/ajitpratap0/GoSQLX/pkg/gosqlx"
	"github.com/ajitpratap0/GoSQLX/pkg/sql/ast"
	"github.com/ajitpratap0/GoSQLX/pkg/sql/security"
	"pgregory.net/rapid"
	"verif/gen/lexgen"
	"verif/internal/astdump"
	"verif/internal/hx"
)

func TestMain(m *testing.M) { hx.Main(m, "C16") }

// A payload with its documented class and severity.
type payload struct {
	Name, Text string
	Pattern    security.PatternType
	Severity   security.Severity
	Kind       string // cond | call | union
}

var payloads = []payload{
	{"taut_num", "1 = 1", security.PatternTautology, security.SeverityCritical, "cond"},
	{"taut_str", "'a' = 'a'", security.PatternTautology, security.SeverityCritical, "cond"},
	{"taut_ident", "x = x", security.PatternTautology, security.SeverityCritical, "cond"},
	{"taut_bool", "TRUE = TRUE", security.PatternTautology, security.SeverityCritical, "cond"},
	{"sleep", "SLEEP ( 5 )", security.PatternTimeBased, security.SeverityHigh, "call"},
	{"pg_sleep", "pg_sleep ( 5 )", security.PatternTimeBased, security.SeverityHigh, "call"},
	{"benchmark", "BENCHMARK ( 1000 , a )", security.PatternTimeBased, security.SeverityHigh, "call"},
	{"load_file", "LOAD_FILE ( '/etc/passwd' )", security.PatternOutOfBand, security.SeverityCritical, "call"},
	{"xp_cmdshell", "xp_cmdshell ( 'dir' )", security.PatternOutOfBand, security.SeverityCritical, "call"},
	{"sp_executesql", "sp_executesql ( 'x' )", security.PatternDangerousFunc, security.SeverityCritical, "call"},
	{"exec", "EXEC ( 'x' )", security.PatternDangerousFunc, security.SeverityCritical, "call"},
	{"union_nulls", "UNION SELECT NULL , NULL", security.PatternUnionBased, security.SeverityHigh, "union"},
	{"union_info_schema", "UNION SELECT a FROM information_schema . tables", security.PatternUnionBased, security.SeverityCritical, "union"},
	{"union_pg_catalog", "UNION SELECT a FROM pg_catalog . pg_tables", security.PatternUnionBased, security.SeverityCritical, "union"},
	{"union_sqlite_master", "UNION SELECT a FROM sqlite_master", security.PatternUnionBased, security.SeverityCritical, "union"},
}

// positions: %s is the hole for a condition or call payload
var positions = []struct {
	Name, Tmpl string
	Depth      int
	CallOnly   bool // the hole takes a value, not a condition
}{
	{"where", "SELECT a FROM t1 WHERE %s", 0, false},
	{"and_operand", "SELECT a FROM t1 WHERE c = 2 AND %s", 0, false},
	{"or_operand", "SELECT a FROM t1 WHERE c = 2 OR %s", 0, false},
	{"and_left", "SELECT a FROM t1 WHERE %s AND c = 2", 0, false},
	{"nested_bool", "SELECT a FROM t1 WHERE ( c = 2 AND ( d = 3 OR ( e = 4 AND %s ) ) )", 1, false},
	{"not_operand", "SELECT a FROM t1 WHERE NOT ( c = 2 AND %s )", 1, false},
	{"having", "SELECT a FROM t1 GROUP BY a HAVING %s", 0, false},
	{"join_on", "SELECT a FROM t1 JOIN t2 ON %s", 1, false},
	{"join_on_and", "SELECT a FROM t1 LEFT JOIN t2 ON t1 . a = t2 . b AND %s WHERE c = 2", 1, false},
	{"derived_table", "SELECT a FROM ( SELECT a FROM t1 WHERE %s ) AS d", 1, false},
	{"in_subquery", "SELECT a FROM t1 WHERE a IN ( SELECT b FROM t2 WHERE %s )", 1, false},
	{"exists", "SELECT a FROM t1 WHERE EXISTS ( SELECT 1 FROM t2 WHERE %s )", 1, false},
	{"not_exists", "SELECT a FROM t1 WHERE NOT EXISTS ( SELECT 1 FROM t2 WHERE %s )", 1, false},
	{"scalar_subquery", "SELECT ( SELECT b FROM t2 WHERE %s ) FROM t1", 1, false},
	{"quantified", "SELECT a FROM t1 WHERE a = ANY ( SELECT b FROM t2 WHERE %s )", 1, false},
	{"cte_body", "WITH c AS ( SELECT a FROM t1 WHERE %s ) SELECT a FROM c", 1, false},
	{"nested_cte", "WITH c AS ( WITH d AS ( SELECT a FROM t1 WHERE %s ) SELECT a FROM d ) SELECT a FROM c", 2, false},
	{"insert_select", "INSERT INTO t3 SELECT a FROM t1 WHERE %s", 1, false},
	{"update_where", "UPDATE t1 SET a = 1 WHERE %s", 0, false},
	{"delete_where", "DELETE FROM t1 WHERE %s", 0, false},
	{"update_subquery", "UPDATE t1 SET a = 1 WHERE b IN ( SELECT b FROM t2 WHERE %s )", 1, false},
	{"case_when", "SELECT CASE WHEN %s THEN 1 ELSE 0 END FROM t1", 1, false},
	{"case_when_in_where", "SELECT a FROM t1 WHERE CASE WHEN %s THEN TRUE ELSE FALSE END", 1, false},
	{"func_arg", "SELECT a FROM t1 WHERE coalesce ( %s , FALSE )", 1, false},
	{"filter_where", "SELECT count ( * ) FILTER ( WHERE %s ) FROM t1", 1, false},
	{"set_op_right", "SELECT a FROM t1 UNION ALL SELECT a FROM t2 WHERE %s", 1, false},
	{"set_op_left", "SELECT a FROM t1 WHERE %s EXCEPT SELECT a FROM t2", 1, false},
	{"double_nested", "SELECT a FROM t1 WHERE a IN ( SELECT b FROM ( SELECT b FROM t2 WHERE %s ) AS q )", 2, false},
	{"between_bound", "SELECT a FROM t1 WHERE a BETWEEN 1 AND %s", 1, true},
	{"in_list", "SELECT a FROM t1 WHERE a IN ( 1 , %s )", 1, true},
	{"cmp_rhs", "SELECT a FROM t1 WHERE a = %s", 0, true},
	{"select_item", "SELECT %s FROM t1", 0, true},
	{"insert_values", "INSERT INTO t1 VALUES ( 1 , %s )", 0, true},
	{"update_set", "UPDATE t1 SET a = %s WHERE b = 1", 0, true},
	{"case_as_comparison_operand", "SELECT a FROM t1 WHERE CASE WHEN %s THEN 1 ELSE 0 END = 1", 1, false},
	{"case_as_right_operand", "SELECT a FROM t1 WHERE 1 = CASE WHEN %s THEN 1 ELSE 0 END", 1, false},
	{"case_in_arithmetic", "SELECT a FROM t1 WHERE a + CASE WHEN %s THEN 1 ELSE 0 END > 0", 1, false},
	{"paren_condition_as_operand", "SELECT a FROM t1 WHERE ( %s ) = TRUE", 1, false},
	{"cast_argument_as_operand", "SELECT a FROM t1 WHERE a = CAST ( %s AS INTEGER )", 1, true},
	{"pg_cast_as_operand", "SELECT a FROM t1 WHERE a = ( %s ) :: INTEGER", 1, true},
	{"arithmetic_operand", "SELECT a FROM t1 WHERE a + %s > 1", 1, true},
	{"concat_operand", "SELECT a FROM t1 WHERE 'x' || %s = 'y'", 1, true},
	{"unary_minus_operand", "SELECT a FROM t1 WHERE a = - %s", 1, true},
	{"like_pattern", "SELECT a FROM t1 WHERE b LIKE %s", 1, true},
	{"is_null_operand", "SELECT a FROM t1 WHERE %s IS NULL", 1, true},
	{"case_result", "SELECT CASE WHEN a = 1 THEN %s ELSE 0 END FROM t1", 1, true},
	{"array_element", "SELECT ARRAY [ 1 , %s ] FROM t1", 1, true},
	{"tuple_element", "SELECT a FROM t1 WHERE ( a , b ) = ( 1 , %s )", 1, true},
	{"nested_function_argument", "SELECT upper ( lower ( %s ) ) FROM t1", 1, true},
	{"order_by_item", "SELECT a FROM t1 ORDER BY %s", 0, true},
	{"group_by_item", "SELECT a FROM t1 GROUP BY %s", 0, true},
	{"window_partition", "SELECT sum ( a ) OVER ( PARTITION BY %s ) FROM t1", 1, true},
	{"merge_on", "MERGE INTO t1 USING t2 ON %s WHEN MATCHED THEN DELETE", 0, false},
	{"merge_on_and", "MERGE INTO t1 USING t2 ON t1 . a = t2 . a AND %s WHEN MATCHED THEN DELETE", 0, false},
	{"merge_when_condition", "MERGE INTO t1 USING t2 ON t1 . a = t2 . a WHEN MATCHED AND %s THEN DELETE", 1, false},
	{"merge_not_matched_condition", "MERGE INTO t1 USING t2 ON t1 . a = t2 . a WHEN NOT MATCHED AND %s THEN INSERT ( a ) VALUES ( 1 )", 1, false},
	{"merge_source_subquery", "MERGE INTO t1 USING ( SELECT a FROM t2 WHERE %s ) s ON t1 . a = s . a WHEN MATCHED THEN DELETE", 1, false},
	{"merge_update_set", "MERGE INTO t1 USING t2 ON t1 . a = t2 . a WHEN MATCHED THEN UPDATE SET b = %s", 1, true},
	{"merge_insert_values", "MERGE INTO t1 USING t2 ON t1 . a = t2 . a WHEN NOT MATCHED THEN INSERT ( a , b ) VALUES ( 1 , %s )", 1, true},
	{"on_conflict_set", "INSERT INTO t1 VALUES ( 1 ) ON CONFLICT ( a ) DO UPDATE SET a = %s", 1, true},
	{"on_conflict_where", "INSERT INTO t1 VALUES ( 1 ) ON CONFLICT ( a ) DO UPDATE SET a = 2 WHERE %s", 1, false},
	{"on_duplicate_key_set", "INSERT INTO t1 VALUES ( 1 ) ON DUPLICATE KEY UPDATE a = %s", 1, true},
	{"replace_values", "REPLACE INTO t1 VALUES ( 1 , %s )", 0, true},
	{"insert_returning", "INSERT INTO t1 VALUES ( 1 ) RETURNING %s", 1, true},
	{"update_returning", "UPDATE t1 SET a = 1 WHERE b = 2 RETURNING %s", 1, true},
	{"delete_returning", "DELETE FROM t1 WHERE b = 2 RETURNING %s", 1, true},
	{"distinct_on", "SELECT DISTINCT ON ( %s ) a FROM t1", 1, true},
	{"window_order", "SELECT sum ( a ) OVER ( ORDER BY %s ) FROM t1", 1, true},
	{"aggregate_order_by", "SELECT array_agg ( a ORDER BY %s ) FROM t1", 1, true},
	{"within_group", "SELECT percentile_cont ( 0.5 ) WITHIN GROUP ( ORDER BY %s ) FROM t1", 1, true},
	{"subscript_index", "SELECT a [ %s ] FROM t1", 1, true},
	{"json_operand", "SELECT a -> %s FROM t1", 1, true},
	{"lateral_subquery", "SELECT a FROM t1 , LATERAL ( SELECT b FROM t2 WHERE %s ) l", 1, false},
	{"join_derived", "SELECT a FROM t1 JOIN ( SELECT b FROM t2 WHERE %s ) d ON t1 . a = d . b", 1, false},
	{"insert_cte", "WITH c AS ( SELECT a FROM t2 WHERE %s ) INSERT INTO t1 SELECT a FROM c", 1, false},
	{"delete_cte", "WITH c AS ( SELECT a FROM t2 WHERE %s ) DELETE FROM t1 WHERE a IN ( SELECT a FROM c )", 1, false},
	{"values_subquery", "INSERT INTO t1 VALUES ( ( SELECT b FROM t2 WHERE %s ) )", 1, false},
	{"update_set_subquery", "UPDATE t1 SET a = ( SELECT b FROM t2 WHERE %s )", 1, false},
	{"having_subquery", "SELECT a FROM t1 GROUP BY a HAVING count ( * ) > ( SELECT 1 FROM t2 WHERE %s )", 1, false},
	{"order_by_subquery", "SELECT a FROM t1 ORDER BY ( SELECT 1 FROM t2 WHERE %s )", 1, false},
	{"match_against_and", "SELECT a FROM t1 WHERE MATCH ( a ) AGAINST ( 'x' ) AND %s", 0, false},
	{"view_body", "CREATE VIEW v1 AS SELECT a FROM t1 WHERE %s", 1, false},
	{"materialized_view_body", "CREATE MATERIALIZED VIEW mv1 AS SELECT a FROM t1 WHERE %s", 1, false},
	{"subquery_as_function_argument", "SELECT coalesce ( ( SELECT b FROM t2 WHERE %s ) , 0 ) FROM t1", 2, false},
	{"subquery_in_nested_function_argument", "SELECT a FROM t1 WHERE abs ( round ( ( SELECT b FROM t2 WHERE %s ) ) ) > 1", 2, false},
	{"in_subquery_as_function_argument", "SELECT a FROM t1 WHERE coalesce ( b IN ( SELECT b FROM t2 WHERE %s ) , FALSE )", 2, false},
	{"exists_as_function_argument", "SELECT a FROM t1 WHERE coalesce ( EXISTS ( SELECT 1 FROM t2 WHERE %s ) , FALSE )", 2, false},
	{"subquery_in_case_result", "SELECT CASE WHEN a = 1 THEN ( SELECT b FROM t2 WHERE %s ) ELSE 0 END FROM t1", 2, false},
	{"subquery_in_cast", "SELECT CAST ( ( SELECT b FROM t2 WHERE %s ) AS INTEGER ) FROM t1", 2, false},
	{"subquery_in_between_bound", "SELECT a FROM t1 WHERE a BETWEEN 1 AND ( SELECT b FROM t2 WHERE %s )", 2, false},
	{"subquery_in_in_list", "SELECT a FROM t1 WHERE a IN ( 1 , ( SELECT b FROM t2 WHERE %s ) )", 2, false},
	{"subquery_in_arithmetic", "SELECT a + ( SELECT b FROM t2 WHERE %s ) FROM t1", 2, false},
	{"subquery_in_array", "SELECT ARRAY [ ( SELECT b FROM t2 WHERE %s ) ] FROM t1", 2, false},
	{"subquery_in_tuple", "SELECT a FROM t1 WHERE ( a , b ) = ( 1 , ( SELECT b FROM t2 WHERE %s ) )", 2, false},
	{"subquery_in_window_partition", "SELECT sum ( a ) OVER ( PARTITION BY ( SELECT b FROM t2 WHERE %s ) ) FROM t1", 2, false},
	{"subquery_in_unary_minus", "SELECT - ( SELECT b FROM t2 WHERE %s ) FROM t1", 2, false},
	{"subquery_in_like_pattern", "SELECT a FROM t1 WHERE b LIKE ( SELECT c FROM t2 WHERE %s )", 2, false},
	{"subquery_in_is_null", "SELECT a FROM t1 WHERE ( SELECT b FROM t2 WHERE %s ) IS NULL", 2, false},
	{"subquery_in_filter", "SELECT count ( * ) FILTER ( WHERE a > ( SELECT b FROM t2 WHERE %s ) ) FROM t1", 2, false},
	{"subquery_in_aggregate_order_by", "SELECT array_agg ( a ORDER BY ( SELECT b FROM t2 WHERE %s ) ) FROM t1", 2, false},
	{"subquery_in_returning", "DELETE FROM t1 WHERE b = 2 RETURNING ( SELECT b FROM t2 WHERE %s )", 2, false},
	{"subquery_in_merge_set", "MERGE INTO t1 USING t2 ON t1 . a = t2 . a WHEN MATCHED THEN UPDATE SET b = ( SELECT b FROM t2 WHERE %s )", 2, false},
	{"subquery_in_on_conflict_set", "INSERT INTO t1 VALUES ( 1 ) ON CONFLICT ( a ) DO UPDATE SET a = ( SELECT b FROM t2 WHERE %s )", 2, false},
	{"subquery_in_group_by", "SELECT a FROM t1 GROUP BY ( SELECT b FROM t2 WHERE %s )", 2, false},
	{"subquery_in_subscript", "SELECT a [ ( SELECT b FROM t2 WHERE %s ) ] FROM t1", 2, false},
	{"subquery_in_json_operand", "SELECT a -> ( SELECT b FROM t2 WHERE %s ) FROM t1", 2, false},
	{"subquery_in_interval_free_concat", "SELECT 'x' || ( SELECT b FROM t2 WHERE %s ) FROM t1", 2, false},
}

// union positions: %s is where "UNION SELECT ..." is appended to a query
var unionPositions = []struct {
	Name, Tmpl string
	Depth      int
}{
	{"top", "SELECT a , b FROM t1 WHERE c = 2 %s", 0},
	{"in_subquery", "SELECT a FROM t1 WHERE a IN ( SELECT b FROM t2 %s )", 1},
	{"cte_body", "WITH c AS ( SELECT a , b FROM t1 %s ) SELECT a FROM c", 1},
	{"insert_select", "INSERT INTO t3 SELECT a , b FROM t1 %s", 1},
	{"exists", "SELECT a FROM t1 WHERE EXISTS ( SELECT a , b FROM t2 %s )", 1},
	{"chain", "SELECT a , b FROM t1 UNION SELECT c , d FROM t2 %s", 0},
}

type ScanCase struct {
	Payload  string `json:"payload"`
	Position string `json:"position"`
	Base     string `json:"base_sql"`
	SQL      string `json:"sql"`      // canonical layout, payload at the position
	Laid     string `json:"laid_out"` // same tokens, other whitespace / case / redundant parentheses
}

type fkey struct {
	p security.PatternType
	s security.Severity
}

func scanTree(sql string, min security.Severity) ([]security.Finding, *security.ScanResult, error) {
	tree, err := gosqlx.Parse(sql)
	if err != nil {
		return nil, nil, err
	}
	sc, err := security.NewScannerWithSeverity(min)
	if err != nil {
		return nil, nil, err
	}
	before := astdump.Dump(tree.Statements)
	r := sc.Scan(tree)
	if after := astdump.Dump(tree.Statements); after != before {
		return nil, nil, fmt.Errorf("MUTATED: scanning changed the tree: %s", astdump.Diff(after, before))
	}
	return r.Findings, r, nil
}

func keysOf(fs []security.Finding) map[fkey]int {
	m := map[fkey]int{}
	for _, f := range fs {
		m[fkey{f.Pattern, f.Severity}]++
	}
	return m
}

func desc(fs []security.Finding) []string {
	var out []string
	for _, f := range fs {
		out = append(out, string(f.Pattern)+"/"+string(f.Severity)+"/"+f.Description)
	}
	return out
}

var sevs = []security.Severity{security.SeverityLow, security.SeverityMedium, security.SeverityHigh, security.SeverityCritical}
var order = map[security.Severity]int{security.SeverityLow: 0, security.SeverityMedium: 1, security.SeverityHigh: 2, security.SeverityCritical: 3}

func consistent(r *security.ScanResult) error {
	if r.TotalCount != len(r.Findings) {
		return fmt.Errorf("TotalCount %d but %d findings listed", r.TotalCount, len(r.Findings))
	}
	t := map[security.Severity]int{}
	for _, f := range r.Findings {
		t[f.Severity]++
	}
	if r.CriticalCount != t[security.SeverityCritical] || r.HighCount != t[security.SeverityHigh] || r.MediumCount != t[security.SeverityMedium] || r.LowCount != t[security.SeverityLow] {
		return fmt.Errorf("per-severity counts C=%d H=%d M=%d L=%d do not match the findings listed (%v)", r.CriticalCount, r.HighCount, r.MediumCount, r.LowCount, t)
	}
	return nil
}

func oracleScan(c ScanCase) error {
	var want payload
	for _, p := range payloads {
		if p.Name == c.Payload {
			want = p
		}
	}
	// clause 1: documented class and severity in the canonical position
	base, _, err := scanTree(c.Base, security.SeverityLow)
	if err != nil {
		if strings.HasPrefix(err.Error(), "MUTATED") {
			return err
		}
		return fmt.Errorf("the documented payload in its canonical position is not accepted by the parser, so Scan can never see it: %v", firstLine(err))
	}
	B := keysOf(base)
	if B[fkey{want.Pattern, want.Severity}] == 0 {
		return fmt.Errorf("payload %q as the top-level condition is not reported as %s/%s (findings: %v)", want.Text, want.Pattern, want.Severity, desc(base))
	}
	// clause 2: equally at every position, in every layout
	for _, sql := range []string{c.SQL, c.Laid} {
		got, res, err := scanTree(sql, security.SeverityLow)
		if err != nil {
			if strings.HasPrefix(err.Error(), "MUTATED") {
				return err
			}
			return fmt.Errorf("statement with the payload at position %s is rejected: %v\n sql: %s", c.Position, firstLine(err), sql)
		}
		G := keysOf(got)
		for k := range B {
			if G[k] == 0 {
				return fmt.Errorf("payload %q is reported as %s/%s as a top-level WHERE condition but not at position %s (findings there: %v)\n sql: %s", want.Text, k.p, k.s, c.Position, desc(got), sql)
			}
		}
		if err := consistent(res); err != nil {
			return fmt.Errorf("%v\n sql: %s", err, sql)
		}
		// thresholds: raising the minimum removes exactly the findings below it
		for _, min := range sevs {
			fm, rm, err := scanTree(sql, min)
			if err != nil {
				return err
			}
			var filtered []string
			for _, f := range got {
				if order[f.Severity] >= order[min] {
					filtered = append(filtered, string(f.Pattern)+"/"+string(f.Severity)+"/"+f.Description)
				}
			}
			if fmt.Sprint(desc(fm)) != fmt.Sprint(filtered) {
				return fmt.Errorf("with minimum severity %s the findings are %v, but the findings at LOW filtered to >= %s are %v\n sql: %s", min, desc(fm), min, filtered, sql)
			}
			if err := consistent(rm); err != nil {
				return fmt.Errorf("min=%s: %v", min, err)
			}
		}
	}
	// independence of previous scans: A, B, A on one scanner
	treeA, _ := gosqlx.Parse(c.SQL)
	treeB, _ := gosqlx.Parse("SELECT a FROM t1 WHERE 2 = 2 OR SLEEP ( 1 ) ; DELETE FROM t2 WHERE 1 = 1")
	sc := security.NewScanner()
	a1 := sc.Scan(treeA)
	sc.Scan(treeB)
	a2 := sc.Scan(treeA)
	if fmt.Sprint(desc(a1.Findings), a1.TotalCount, a1.CriticalCount, a1.HighCount) != fmt.Sprint(desc(a2.Findings), a2.TotalCount, a2.CriticalCount, a2.HighCount) {
		return fmt.Errorf("scanning the same tree again after another scan gives a different result: %v vs %v", desc(a1.Findings), desc(a2.Findings))
	}
	// one scanner whose (exported) MinSeverity is changed between scans answers like a fresh
	// scanner created with that minimum, whatever it scanned before
	used := security.NewScanner()
	for _, min := range []security.Severity{security.SeverityLow, security.SeverityCritical, security.SeverityHigh, security.SeverityMedium, security.SeverityCritical, security.SeverityLow} {
		used.MinSeverity = min
		for _, tr := range []*ast.AST{treeB, treeA} {
			fresh, _ := security.NewScannerWithSeverity(min)
			u, f := used.Scan(tr), fresh.Scan(tr)
			if fmt.Sprint(desc(u.Findings), u.TotalCount) != fmt.Sprint(desc(f.Findings), f.TotalCount) {
				return fmt.Errorf("a scanner that has been used before and is now set to minimum severity %s reports %v, a fresh scanner with that minimum reports %v", min, desc(u.Findings), desc(f.Findings))
			}
		}
	}
	return nil
}

func firstLine(err error) string {
	s := err.Error()
	if i := strings.IndexByte(s, '\n'); i >= 0 {
		s = s[:i]
	}
	return s
}

var scanCheck = hx.NewCheck("scan_context_closed", oracleScan)

// relayout: other whitespace, keyword case and redundant parentheses around the payload
func relayout(rt *rapid.T, tmpl, payload string, cond bool) string {
	p := payload
	if cond && rapid.Bool().Draw(rt, "parens") {
		p = "( " + p + " )"
		if rapid.Bool().Draw(rt, "parens2") {
			p = "( " + p + " )"
		}
	}
	s := fmt.Sprintf(tmpl, p)
	toks := strings.Fields(s)
	// re-join string literals that contain spaces (none in the catalogue) - tokens are space separated by construction
	var b strings.Builder
	for i, t := range toks {
		if i > 0 {
			b.WriteString(rapid.SampledFrom([]string{" ", "  ", "\n", "\t", "\n\t ", " \n"}).Draw(rt, "ws"))
		}
		if lexgen.IsCore(t) || strings.EqualFold(t, "union") || strings.EqualFold(t, "null") {
			switch rapid.IntRange(0, 2).Draw(rt, "case") {
			case 1:
				t = strings.ToLower(t)
			case 2:
				t = strings.ToUpper(t[:1]) + strings.ToLower(t[1:])
			}
		} else if rapid.IntRange(0, 3).Draw(rt, "fncase") == 0 && strings.Contains(payload, t) && !strings.HasPrefix(t, "'") && len(t) > 2 {
			t = strings.ToUpper(t) // function names are case-insensitive
		} else if payload == "x = x" && t == "x" && rapid.IntRange(0, 2).Draw(rt, "identcase") == 0 {
			t = "X" // so are unquoted column names: X = x compares a column with itself
		}
		b.WriteString(t)
	}
	return b.String()
}

func TestScanContextClosed(t *testing.T) {
	hx.Rule("scan_context_closed", "documented payloads (3 tautologies, 6 time-delay/dangerous calls, 4 UNION probes) x condition/expression positions of the grammar (107 for conditions/calls incl. sub-queries underneath function calls, casts, CASE results, lists, tuples and operators, operand positions under comparisons, arithmetic, casts and CASE, MERGE ON / WHEN conditions, SET and INSERT values and view bodies, 6 for UNION probes, nesting depth up to 2) x layouts (whitespace, keyword/function letter case, redundant parentheses) x 4 severity thresholds; the class/severity reported for the payload as top-level WHERE condition must be reported at every position and layout; thresholds filter exactly; counts equal the list; the tree is not mutated; A,B,A scans agree; a used scanner whose MinSeverity field is changed between scans answers like a fresh one; non-trivial = position is not the base and nesting depth >= 1; distinct = payload x position x layout hash")
	scanCheck.Rapid(t, hx.N(60000, 600000), genScanPositions)
}

// exhaustive grid payload x position in canonical layout
func TestScanGridExhaustive(t *testing.T) {
	if hx.Shard() != 0 {
		t.Skip("enumeration runs on shard 0 only")
	}
	hx.Rule("scan_grid", "every payload x every position in canonical layout (exhaustive grid), same oracle")
	var names []string
	for _, p := range payloads {
		if p.Kind == "union" {
			for _, pos := range unionPositions {
				c := ScanCase{Payload: p.Name, Position: "union_" + pos.Name, Base: fmt.Sprintf(unionPositions[0].Tmpl, p.Text), SQL: fmt.Sprintf(pos.Tmpl, p.Text)}
				c.Laid = c.SQL
				if !allowed(c) {
					continue
				}
				hx.Case("scan_grid", true, c.Payload+c.Position)
				hx.Sample("scan_grid", c.SQL)
				scanCheck.One(t, c)
				names = append(names, c.Payload+"@"+c.Position)
			}
			continue
		}
		for _, pos := range positions {
			if pos.CallOnly && p.Kind != "call" {
				continue
			}
			c := ScanCase{Payload: p.Name, Position: pos.Name, Base: fmt.Sprintf(positions[0].Tmpl, p.Text), SQL: fmt.Sprintf(pos.Tmpl, p.Text)}
			c.Laid = c.SQL
			if !allowed(c) {
				continue
			}
			hx.Case("scan_grid", true, c.Payload+c.Position)
			hx.Sample("scan_grid", c.SQL)
			scanCheck.One(t, c)
			names = append(names, c.Payload+"@"+c.Position)
		}
	}
	sort.Strings(names)
	hx.Exhaustive("scan_grid", true)
	t.Logf("grid cells: %d", len(names))
}

// allowed: known findings switch off single payloads or positions
func allowed(c ScanCase) bool {
	return hx.Allowed("c16.payload."+c.Payload) && hx.Allowed("c16.position."+c.Position)
}

// ---------------------------------------------------------------- text scanners: layout and case invariance

type TextCase struct {
	SQL  string `json:"sql"`
	Laid string `json:"laid_out"`
}

func oracleText(c TextCase) error {
	for _, min := range sevs {
		sc, _ := security.NewScannerWithSeverity(min)
		a, b := sc.ScanSQL(c.SQL), sc.ScanSQL(c.Laid)
		for _, r := range []*security.ScanResult{a, b} {
			if err := consistent(r); err != nil {
				return fmt.Errorf("ScanSQL min=%s: %v", min, err)
			}
		}
		ka, kb := keysOf(a.Findings), keysOf(b.Findings)
		for k := range ka {
			if kb[k] == 0 {
				return fmt.Errorf("ScanSQL (min %s) reports %s/%s for the canonical layout but not when only whitespace and letter case differ\n canonical: %s\n other: %s", min, k.p, k.s, c.SQL, c.Laid)
			}
		}
		for k := range kb {
			if ka[k] == 0 {
				return fmt.Errorf("ScanSQL (min %s) reports %s/%s only in the re-laid-out text\n canonical: %s\n other: %s", min, k.p, k.s, c.SQL, c.Laid)
			}
		}
		if min != security.SeverityLow {
			low := security.NewScanner()
			low.MinSeverity = security.SeverityLow
			var filtered []string
			for _, f := range low.ScanSQL(c.SQL).Findings {
				if order[f.Severity] >= order[min] {
					filtered = append(filtered, string(f.Pattern)+"/"+string(f.Severity)+"/"+f.Description)
				}
			}
			if fmt.Sprint(desc(a.Findings)) != fmt.Sprint(filtered) {
				return fmt.Errorf("ScanSQL with minimum %s gives %v, filtering the LOW result gives %v", min, desc(a.Findings), filtered)
			}
		}
	}
	return nil
}

var textCheck = hx.NewCheck("scansql_layout_invariant", oracleText)

func TestScanSQLLayoutInvariant(t *testing.T) {
	hx.Rule("scansql_layout_invariant", "same payload/position catalogue through the text scanner ScanSQL: canonical layout vs other whitespace and letter case (no comments, no added parentheses) must give the same (pattern, severity) set at all four thresholds, counts equal the list, thresholds filter exactly; non-trivial = layouts differ; distinct = payload x position x layout hash")
	textCheck.Rapid(t, hx.N(40000, 400000), func(rt *rapid.T) TextCase {
		p := rapid.SampledFrom(payloads).Draw(rt, "payload")
		var tmpl string
		if p.Kind == "union" {
			tmpl = rapid.SampledFrom(unionPositions).Draw(rt, "upos").Tmpl
		} else {
			pos := rapid.SampledFrom(positions).Draw(rt, "pos")
			for pos.CallOnly && p.Kind != "call" {
				pos = positions[rapid.IntRange(0, len(positions)-1).Draw(rt, "pos2")]
			}
			tmpl = pos.Tmpl
		}
		c := TextCase{SQL: fmt.Sprintf(tmpl, p.Text), Laid: relayout(rt, tmpl, p.Text, false)}
		hx.Case("scansql_layout_invariant", c.SQL != c.Laid, p.Name+fmt.Sprint(hx.H(c.Laid)%256))
		hx.Sample("scansql_layout_invariant", c)
		return c
	})
}

// genScanPositions is the case generator of scanCheck (shared by the rapid run and the native fuzz target).
func genScanPositions(rt *rapid.T) ScanCase {
	p := rapid.SampledFrom(payloads).Draw(rt, "payload")
	var c ScanCase
	depth := 0
	if p.Kind == "union" {
		pos := rapid.SampledFrom(unionPositions).Draw(rt, "upos")
		c = ScanCase{Payload: p.Name, Position: "union_" + pos.Name, Base: fmt.Sprintf(unionPositions[0].Tmpl, p.Text), SQL: fmt.Sprintf(pos.Tmpl, p.Text), Laid: relayout(rt, pos.Tmpl, p.Text, false)}
		depth = pos.Depth
	} else {
		pos := rapid.SampledFrom(positions).Draw(rt, "pos")
		for pos.CallOnly && p.Kind != "call" {
			pos = positions[rapid.IntRange(0, len(positions)-1).Draw(rt, "pos2")]
		}
		c = ScanCase{Payload: p.Name, Position: pos.Name, Base: fmt.Sprintf(positions[0].Tmpl, p.Text), SQL: fmt.Sprintf(pos.Tmpl, p.Text), Laid: relayout(rt, pos.Tmpl, p.Text, !pos.CallOnly)}
		depth = pos.Depth
	}
	multi := rapid.IntRange(0, 3).Draw(rt, "multi")
	var mcl []string
	if multi > 0 {
		// several top-level statements: findings accumulate over the script
		pre := rapid.SampledFrom([]string{"DELETE FROM u WHERE 1 = 1", "SELECT b FROM u WHERE c = 2", "UPDATE u SET a = SLEEP ( 1 ) WHERE b = 2"}).Draw(rt, "pre")
		post := rapid.SampledFrom([]string{"SELECT 1", "SELECT b FROM u WHERE 'x' = 'x'", "INSERT INTO u VALUES ( 1 )"}).Draw(rt, "post")
		switch multi {
		case 1:
			c.SQL, c.Laid = pre+" ; "+c.SQL, pre+" ;\n"+c.Laid
		case 2:
			c.SQL, c.Laid = c.SQL+" ; "+post, c.Laid+"\n;\n"+post
		default:
			c.SQL, c.Laid = pre+" ; "+c.SQL+" ; "+post, pre+" ; "+c.Laid+" ; "+post
		}
		mcl = append(mcl, "multi_statement")
	}
	hx.Case("scan_context_closed", c.Position != "where" && c.Position != "union_top" && depth >= 1, c.Payload+"|"+c.Position+"|"+fmt.Sprint(hx.H(c.Laid)%64), append(mcl, "payload_"+p.Kind, "pos_"+c.Position)...)
	hx.Sample("scan_context_closed", c)
	return c
}

// FuzzScanPositions: coverage-guided search over the same generator (thorough tier).
func FuzzScanPositions(f *testing.F) { scanCheck.Fuzz(f, genScanPositions) }
