package c08

import (
	"context"
	"fmt"
	"runtime"
	"runtime/debug"
	"strings"
	"testing"

	"github.com/ajitpratap0/GoSQLX/pkg/models"
	"github.com/ajitpratap0/GoSQLX/pkg/sql/ast"
	"github.com/ajitpratap0/GoSQLX/pkg/sql/keywords"
	"github.com/ajitpratap0/GoSQLX/pkg/sql/parser"
	"github.com/ajitpratap0/GoSQLX/pkg/sql/token"
	"github.com/ajitpratap0/GoSQLX/pkg/sql/tokenizer"
	"pgregory.net/rapid"
	"verif/gen/corrupt"
	"verif/gen/sqlgen"
	"verif/internal/astdump"
	"verif/internal/cctx"
	"verif/internal/hx"
)

func TestMain(m *testing.M) { hx.Main(m, "C08") }

// Op is one step of a history on the instances under test.
type Op struct {
	Kind  string `json:"kind"`
	SQL   string `json:"sql,omitempty"`
	Entry string `json:"entry,omitempty"` // plain | ctx | pos | recovery
	K     int    `json:"k,omitempty"`     // poll index at which the context fires (cancelled calls)
	Arg   string `json:"arg,omitempty"`   // dialect
}

type History struct {
	Ops []Op `json:"ops"`
}

// holder configuration: what the current holder asked for
type config struct {
	strict     bool
	dialect    string
	tkzDial    keywords.SQLDialect
	tkzDialSet bool
}

type result struct {
	s string
}

func tokDump(toks []models.TokenWithSpan, comments []models.Comment, err error) string {
	if err != nil {
		// the comments a failed call leaves on the instance are a function of that call's input too
		return "ERR " + err.Error() + " COMMENTS " + astdump.Dump(comments)
	}
	return astdump.Dump(toks) + " COMMENTS " + astdump.Dump(comments)
}

func tokenizeOn(tkz *tokenizer.Tokenizer, sql string, viaCtx bool) ([]models.TokenWithSpan, string) {
	var toks []models.TokenWithSpan
	var err error
	if viaCtx {
		toks, err = tkz.TokenizeContext(context.Background(), []byte(sql))
	} else {
		toks, err = tkz.Tokenize([]byte(sql))
	}
	cs := append([]models.Comment(nil), tkz.Comments...)
	return toks, tokDump(toks, cs, err) + " DIALECT " + string(tkz.Dialect())
}

var oversized = make([]byte, tokenizer.MaxInputSize+1)

func refusedOn(tkz *tokenizer.Tokenizer, how, sql string) string {
	var toks []models.TokenWithSpan
	var err error
	switch how {
	case "refused_cancelled":
		toks, err = tkz.TokenizeContext(cctx.New(0, context.Canceled), []byte(sql))
	default:
		if len(sql)%2 == 0 {
			toks, err = tkz.Tokenize(oversized)
		} else {
			toks, err = tkz.TokenizeContext(context.Background(), oversized)
		}
	}
	cs := append([]models.Comment(nil), tkz.Comments...)
	return tokDump(toks, cs, err) + " DIALECT " + string(tkz.Dialect())
}

func parseOn(p *parser.Parser, toks []models.TokenWithSpan, entry string, k int) string {
	var t *ast.AST
	var err error
	switch entry {
	case "plain":
		t, err = p.ParseFromModelTokens(toks)
	case "ctx":
		t, err = p.ParseContextFromModelTokens(context.Background(), toks)
	case "pos":
		t, err = p.ParseFromModelTokensWithPositions(toks)
	case "cancelled":
		t, err = p.ParseContextFromModelTokens(cctx.New(k, context.Canceled), toks)
	case "recovery_tokens":
		// Parser.ParseWithRecovery takes parser tokens: those of a fixed valid script with the k-th token
		// dropped, i.e. a script with one syntax error somewhere (or none when k is past the end)
		pt := append([]token.Token(nil), recoveryTokens...)
		if k < len(pt)-1 {
			pt = append(pt[:k], pt[k+1:]...)
		}
		stmts, errs := p.ParseWithRecovery(pt)
		var es []string
		for _, e := range errs {
			es = append(es, e.Error())
		}
		return "RECOVERY-TOKENS " + astdump.Dump(stmts) + " ERRS " + strings.Join(es, " || ")
	case "recovery":
		stmts, errs := p.ParseWithRecoveryFromModelTokens(toks)
		var es []string
		for _, e := range errs {
			es = append(es, e.Error())
		}
		return "RECOVERY " + astdump.Dump(stmts) + " ERRS " + strings.Join(es, " || ")
	}
	if err != nil {
		return "ERR " + err.Error()
	}
	return "TREE " + astdump.Dump(t.Statements) + " DIALECT " + p.Dialect()
}

// recoveryTokens: the parser tokens of a small valid script (obtained from the library once).
var recoveryTokens = func() []token.Token {
	_, toks, err := parser.ParseBytesWithTokens([]byte("SELECT a , b FROM t1 WHERE c = 1 ; UPDATE t2 SET d = 2 WHERE e IN ( 3 , 4 ) ; SELECT f FROM t3"))
	if err != nil {
		panic(err)
	}
	return toks
}()

func freshParser(c config) *parser.Parser {
	var opts []parser.ParserOption
	if c.strict {
		opts = append(opts, parser.WithStrictMode())
	}
	if c.dialect != "" {
		opts = append(opts, parser.WithDialect(c.dialect))
	}
	return parser.NewParser(opts...)
}

func freshTokenizer(c config) *tokenizer.Tokenizer {
	t, _ := tokenizer.New()
	if c.tkzDialSet {
		t.SetDialect(c.tkzDial)
	}
	return t
}

// maxDepthOK: the deepest parenthesis nesting a fresh parser accepts (found once).
var maxDepthOK = func() int {
	ok := func(d int) bool {
		tk, _ := tokenizer.New()
		toks, err := tk.Tokenize([]byte("SELECT " + strings.Repeat("(", d) + "1" + strings.Repeat(")", d)))
		if err != nil {
			return false
		}
		_, err = parser.NewParser().ParseFromModelTokens(toks)
		return err == nil
	}
	lo, hi := 1, 400
	for lo < hi {
		m := (lo + hi + 1) / 2
		if ok(m) {
			lo = m
		} else {
			hi = m - 1
		}
	}
	return lo
}()

// run replays a history; after every step a probe on the used instances is
// compared with the same probe on fresh instances configured as the current holder did.
func run(h History) error {
	runtime.LockOSThread()
	defer runtime.UnlockOSThread()
	old := debug.SetGCPercent(-1)
	defer debug.SetGCPercent(old)

	tkz, _ := tokenizer.New()
	p := parser.NewParser()
	var cfg config
	for i, op := range h.Ops {
		switch op.Kind {
		case "tokenize":
			tkz.Tokenize([]byte(op.SQL))
		case "tokenize_cancelled":
			tkz.TokenizeContext(cctx.New(op.K, context.Canceled), []byte(op.SQL))
		case "parse":
			tk2, _ := tokenizer.New()
			toks, err := tk2.Tokenize([]byte(op.SQL))
			if err == nil {
				parseOn(p, toks, op.Entry, op.K)
			}
		case "strict":
			p.ApplyOptions(parser.WithStrictMode())
			cfg.strict = true
		case "dialect":
			p.ApplyOptions(parser.WithDialect(op.Arg))
			cfg.dialect = op.Arg
		case "tkz_dialect":
			tkz.SetDialect(keywords.SQLDialect(op.Arg))
			cfg.tkzDial, cfg.tkzDialSet = keywords.SQLDialect(op.Arg), true
		case "reset":
			p.Reset()
			cfg.strict, cfg.dialect = false, ""
		case "tkz_reset":
			tkz.Reset() // documented to preserve configuration: the holder stays the same
		case "release":
			p.Release() // the holder's configuration is kept by Release
		case "pool_parser":
			parser.PutParser(p)
			q := parser.GetParser()
			if q == p {
				hx.Class("reuse_history", "pool_identity_hit_parser")
			}
			p = q
			cfg.strict, cfg.dialect = false, ""
		case "pool_tokenizer":
			tokenizer.PutTokenizer(tkz)
			q := tokenizer.GetTokenizer()
			if q == tkz {
				hx.Class("reuse_history", "pool_identity_hit_tokenizer")
			}
			tkz = q
			cfg.tkzDialSet = false
		case "probe":
			if op.Arg == "refused_cancelled" || op.Arg == "refused_oversized" {
				// a call the tokenizer refuses before reading anything: what it leaves on the instance
				// (comments, dialect) must be what it leaves on a fresh one
				g, w := refusedOn(tkz, op.Arg, op.SQL), refusedOn(freshTokenizer(cfg), op.Arg, op.SQL)
				if g != w {
					return fmt.Errorf("step %d: a refused tokenization (%s) on the used tokenizer leaves something else behind than on a fresh one: %s", i, op.Arg, astdump.Diff(g, w))
				}
			}
			// tokenizer probe
			viaCtx := op.K%2 == 1 // both tokenizing entry points are probed
			toks, got := tokenizeOn(tkz, op.SQL, viaCtx)
			ftoks, want := tokenizeOn(freshTokenizer(cfg), op.SQL, viaCtx)
			if got != want {
				return fmt.Errorf("step %d: tokenizing %q (TokenizeContext=%v) on the used tokenizer differs from a fresh one: %s", i, clip(op.SQL), viaCtx, astdump.Diff(got, want))
			}
			if ftoks == nil {
				continue
			}
			g := parseOn(p, toks, op.Entry, op.K)
			w := parseOn(freshParser(cfg), ftoks, op.Entry, op.K)
			if g != w {
				return fmt.Errorf("step %d: %s-parsing %q on the used parser (strict=%v dialect=%q) differs from a fresh parser with the same configuration: %s", i, op.Entry, clip(op.SQL), cfg.strict, cfg.dialect, astdump.Diff(g, w))
			}
		}
	}
	return nil
}

func clip(s string) string {
	if len(s) > 120 {
		return s[:120] + "…"
	}
	return s
}

var histCheck = hx.NewCheck("reuse_history", run)

var dialects = []string{"mysql", "postgresql", "sqlserver", "sqlite", "oracle"}

func genSQL(rt *rapid.T, label string) (string, string) {
	switch rapid.IntRange(0, 12).Draw(rt, label) {
	case 12: // every quoting form the tokenizer has a reader for (used and fresh instance must read them alike)
		return rapid.SampledFrom([]string{"SELECT '''hello'''", "SELECT 'secret-value', \"quoted id\", `back tick`", "SELECT '''a''' , 'b'", "SELECT $tag$ body $tag$ , '''x'''", "SELECT 'unterminated"}).Draw(rt, "quoting"), "quoting_forms"
	case 10: // one line with tabs: columns are not byte offsets + 1
		g := sqlgen.New(rt, smallFeatures())
		toks := sqlgen.Statement(g).Toks
		var sb strings.Builder
		for i, tk := range toks {
			if i > 0 {
				sb.WriteString(rapid.SampledFrom([]string{"\t", " ", "\t\t", " \t"}).Draw(rt, "tabsep"))
			}
			sb.WriteString(tk.Text)
		}
		return sb.String(), "tabbed_line"
	case 11: // first token far into the first line (after blanks, tabs or a comment)
		lead := rapid.SampledFrom([]string{"          ", "\t", "                                        ", "/* lead */   ", " \t \t ", "                    "}).Draw(rt, "lead")
		g := sqlgen.New(rt, smallFeatures())
		return lead + sqlgen.SQL(sqlgen.Statement(g).Toks), "indented_first_line"
	case 0, 1, 2:
		g := sqlgen.New(rt, smallFeatures())
		return sqlgen.SQL(sqlgen.Statement(g).Toks), "valid"
	case 3, 4:
		g := sqlgen.New(rt, smallFeatures())
		toks := sqlgen.Statement(g).Toks
		if len(toks) >= 2 {
			toks = corrupt.Apply(rt, toks).Toks
		}
		return "\n\n  " + sqlgen.SQL(toks), "invalid"
	case 5: // error deep inside nesting
		d := rapid.IntRange(1, 60).Draw(rt, "faildepth")
		fam := rapid.SampledFrom([]string{"SELECT " + strings.Repeat("(", d) + "1 +", "SELECT " + strings.Repeat("- ", d) + "FROM t", "SELECT " + strings.Repeat("f(", d) + ")",
			"SELECT " + strings.Repeat("CASE WHEN ", d) + "THEN", "SELECT a FROM t WHERE " + strings.Repeat("NOT (", d) + "a = ", "SELECT " + strings.Repeat("(SELECT ", d) + "FROM"}).Draw(rt, "failfam")
		return fam, "deep_failure"
	case 6: // beyond the depth limit
		return "SELECT " + strings.Repeat("(", maxDepthOK+20) + "1" + strings.Repeat(")", maxDepthOK+20), "over_limit"
	case 7: // many comments
		n := rapid.IntRange(30, 90).Draw(rt, "ncomments")
		return strings.Repeat("/* c */ -- d\n", n) + "SELECT 1 -- tail", "many_comments"
	case 8: // multi-line error with positions
		return "SELECT a,\n  b\nFROM t\nWHERE (a = 1\n  AND b = ]", "multiline_error"
	default: // mysql-only form (dialect-sensitive)
		return "SELECT a FROM t1 LIMIT 5, 10", "dialect_sensitive"
	}
}

func smallFeatures() sqlgen.Features {
	f := sqlgen.FullFeatures()
	f.MaxDepth = 2
	return f
}

func genProbe(rt *rapid.T) Op {
	entry := rapid.SampledFrom([]string{"plain", "ctx", "pos", "recovery", "cancelled", "recovery_tokens"}).Draw(rt, "probeentry")
	var sql string
	switch rapid.IntRange(0, 6).Draw(rt, "probekind") {
	case 5:
		sql = rapid.SampledFrom([]string{"          SELECT a FROM t", "SELECT '''hello'''", "SELECT '''a''' , \"b\""}).Draw(rt, "fixedprobe")
	case 6:
		sql = "      \t  SELECT 'unterminated"
	case 0: // as deep as a fresh parser accepts
		sql = "SELECT " + strings.Repeat("(", maxDepthOK) + "1" + strings.Repeat(")", maxDepthOK)
	case 1:
		sql = "SELECT a FROM t1 LIMIT 5, 10"
	case 2:
		sql = ";; SELECT 1 ;;"
	default:
		sql, _ = genSQL(rt, "probesql")
	}
	// leading blanks and tabs: column bookkeeping left over from the previous input would show here
	sql = rapid.SampledFrom([]string{"", "", "\t", "  ", "\t\t ", "          ", " \t", "\n\t"}).Draw(rt, "probelead") + sql
	arg := ""
	if rapid.IntRange(0, 5).Draw(rt, "refused") == 0 {
		arg = rapid.SampledFrom([]string{"refused_cancelled", "refused_oversized"}).Draw(rt, "refusedhow")
		hx.Class("reuse_history", "probe_"+arg)
	}
	return Op{Kind: "probe", SQL: sql, Entry: entry, K: rapid.IntRange(0, 12).Draw(rt, "probek"), Arg: arg}
}

func TestReuseHistory(t *testing.T) {
	hx.Rule("reuse_history", "histories (<= 12 steps) on one Tokenizer and one Parser: tokenize valid/invalid/comment-heavy input, tokenize cancelled at poll k, parse through plain/context/positions/recovery entry points and cancelled at poll k (valid, invalid, failing deep inside nesting, over the depth limit), apply strict mode / dialect, Reset, Release, Put->Get through the pools (goroutine pinned, GC off); after the history a probe (incl. a tokenization refused outright - context already done, input over the size limit - , an input exactly as deep as a fresh parser accepts, a dialect-sensitive LIMIT, stray semicolons) must give identical tokens, comments, dialect, tree and error text to fresh instances configured as the current holder did; non-trivial = history has a failing or cancelled call, or an option change followed by Reset/Put-Get; distinct = op kinds + input classes")
	histCheck.Rapid(t, hx.N(20000, 200000), genReuseHistory)
}

// genReuseHistory is the case generator of histCheck (shared by the rapid run and the native fuzz target).
func genReuseHistory(rt *rapid.T) History {
	n := rapid.IntRange(1, 12).Draw(rt, "nops")
	var h History
	var kinds []string
	failing, optThenReset := false, false
	opt := false
	for i := 0; i < n; i++ {
		var op Op
		switch rapid.IntRange(0, 15).Draw(rt, "opkind") {
		case 0, 1:
			s, cl := genSQL(rt, "toksql")
			op = Op{Kind: "tokenize", SQL: s}
			kinds = append(kinds, "tok_"+cl)
		case 2:
			s, cl := genSQL(rt, "toksql")
			op = Op{Kind: "tokenize_cancelled", SQL: s + strings.Repeat(" + 1", 150), K: rapid.IntRange(0, 3).Draw(rt, "k")}
			kinds = append(kinds, "tokc_"+cl)
			failing = true
		case 3, 4, 5, 6, 7:
			s, cl := genSQL(rt, "parsesql")
			e := rapid.SampledFrom([]string{"plain", "ctx", "pos", "recovery", "cancelled", "recovery_tokens"}).Draw(rt, "entry")
			op = Op{Kind: "parse", SQL: s, Entry: e, K: rapid.IntRange(0, 12).Draw(rt, "k")}
			kinds = append(kinds, "parse_"+e+"_"+cl)
			if cl != "valid" || e == "cancelled" {
				failing = true
			}
		case 8:
			op = Op{Kind: "strict"}
			opt = true
			kinds = append(kinds, "strict")
		case 9:
			op = Op{Kind: "dialect", Arg: rapid.SampledFrom(dialects).Draw(rt, "dialect")}
			opt = true
			kinds = append(kinds, "dialect")
		case 10:
			op = Op{Kind: "tkz_dialect", Arg: rapid.SampledFrom(dialects).Draw(rt, "tdialect")}
			opt = true
			kinds = append(kinds, "tkz_dialect")
		case 11:
			op = Op{Kind: "reset"}
			optThenReset = optThenReset || opt
			kinds = append(kinds, "reset")
		case 12:
			op = Op{Kind: "release"}
			kinds = append(kinds, "release")
		case 13:
			op = Op{Kind: "pool_parser"}
			optThenReset = optThenReset || opt
			kinds = append(kinds, "pool_parser")
		case 14:
			op = Op{Kind: "pool_tokenizer"}
			optThenReset = optThenReset || opt
			kinds = append(kinds, "pool_tokenizer")
		default:
			op = Op{Kind: "tkz_reset"}
			kinds = append(kinds, "tkz_reset")
		}
		h.Ops = append(h.Ops, op)
	}
	h.Ops = append(h.Ops, genProbe(rt))
	if rapid.Bool().Draw(rt, "secondprobe") {
		h.Ops = append(h.Ops, genProbe(rt))
	}
	var cl []string
	if failing {
		cl = append(cl, "has_failing_or_cancelled")
	}
	if optThenReset {
		cl = append(cl, "option_then_reset_or_pool")
	}
	hx.Case("reuse_history", failing || optThenReset, strings.Join(kinds, ","), cl...)
	hx.Sample("reuse_history", h)
	return h
}

// FuzzReuseHistory: coverage-guided search over the same generator (thorough tier).
func FuzzReuseHistory(f *testing.F) { histCheck.Fuzz(f, genReuseHistory) }
