package c13

import (
	"context"
	"errors"
	"fmt"
	"os"
	"path/filepath"
	"regexp"
	"strings"
	"testing"
	"time"

	goerrors "github.com/ajitpratap0/GoSQLX/pkg/errors"
	"github.com/ajitpratap0/GoSQLX/pkg/gosqlx"
	"github.com/ajitpratap0/GoSQLX/pkg/sql/keywords"
	"github.com/ajitpratap0/GoSQLX/pkg/sql/parser"
	"github.com/ajitpratap0/GoSQLX/pkg/sql/tokenizer"
	"pgregory.net/rapid"
	"verif/gen/corrupt"
	"verif/gen/lexgen"
	"verif/gen/sqlgen"
	"verif/internal/hx"
)

func TestMain(m *testing.M) { hx.Main(m, "C13") }

// documented error codes: the constants of pkg/errors in the tree under test
// (registry built from the sources at run time) which docs/ERROR_CODES.md lists too.
var documented = func() map[string]bool {
	repo := os.Getenv("VERIF_REPO")
	if repo == "" {
		repo = "/repo"
	}
	m := map[string]bool{}
	src, err := os.ReadFile(filepath.Join(repo, "pkg/errors/errors.go"))
	if err != nil {
		panic("c13: cannot read pkg/errors/errors.go: " + err.Error())
	}
	for _, mm := range regexp.MustCompile(`ErrorCode\s*=\s*"(E[0-9]{4})"`).FindAllStringSubmatch(string(src), -1) {
		m[mm[1]] = true
	}
	if len(m) < 10 {
		panic("c13: error code registry looks empty")
	}
	return m
}()

type ErrCase struct {
	SQL   string `json:"sql"`
	Entry string `json:"entry"`
	// Limit is "nesting" when the input was built to exceed the documented nesting depth (and is otherwise
	// well-formed): the dedicated limit code must then be reachable in the error's unwrap chain
	Limit string `json:"limit,omitempty"`
}

// chainHasCode reports whether some *errors.Error in err's unwrap chain carries the code.
func chainHasCode(err error, code goerrors.ErrorCode) bool {
	for e := err; e != nil; e = errors.Unwrap(e) {
		if se, ok := e.(*goerrors.Error); ok && se.Code == code {
			return true
		}
	}
	return false
}

var entries = []string{"gosqlx.Parse", "gosqlx.Validate", "gosqlx.ParseWithContext", "gosqlx.ParseMultiple", "gosqlx.ValidateMultiple",
	"gosqlx.ParseWithRecovery", "gosqlx.Format", "parser.ParseBytes", "parser.Validate", "parser.ParseWithDialect", "Parser.Parse", "Parser.ParseContext",
	"Parser.ParseWithPositions", "Tokenizer.Tokenize", "pooled.Parser.Parse", "parser.ValidateBytes", "parser.ValidateWithDialect", "parser.ValidateBytesWithDialect",
	"parser.ParseBytesWithDialect", "parser.ParseBytesWithTokens", "gosqlx.ParseBytes", "gosqlx.ParseWithTimeout", "Tokenizer.TokenizeContext"}

// call returns the errors the entry point reports for sql.
func call(entry, sql string) []error {
	one := func(err error) []error {
		if err == nil {
			return nil
		}
		return []error{err}
	}
	low := func(mode string, pooled bool) []error {
		tkz := tokenizer.GetTokenizer()
		defer tokenizer.PutTokenizer(tkz)
		toks, err := tkz.Tokenize([]byte(sql))
		if err != nil {
			return []error{err}
		}
		var p *parser.Parser
		if pooled {
			p = parser.GetParser()
			defer parser.PutParser(p)
		} else {
			p = parser.NewParser()
			defer p.Release()
		}
		switch mode {
		case "plain":
			_, err = p.ParseFromModelTokens(toks)
		case "ctx":
			_, err = p.ParseContextFromModelTokens(context.Background(), toks)
		default:
			_, err = p.ParseFromModelTokensWithPositions(toks)
		}
		return one(err)
	}
	switch entry {
	case "gosqlx.Parse":
		_, err := gosqlx.Parse(sql)
		return one(err)
	case "gosqlx.Validate":
		return one(gosqlx.Validate(sql))
	case "gosqlx.ParseWithContext":
		_, err := gosqlx.ParseWithContext(context.Background(), sql)
		return one(err)
	case "gosqlx.ParseMultiple":
		_, err := gosqlx.ParseMultiple([]string{"SELECT 1", sql})
		return one(err)
	case "gosqlx.ValidateMultiple":
		return one(gosqlx.ValidateMultiple([]string{"SELECT 1", sql}))
	case "gosqlx.ParseWithRecovery":
		_, errs := gosqlx.ParseWithRecovery(sql)
		return errs
	case "gosqlx.Format":
		_, err := gosqlx.Format(sql, gosqlx.DefaultFormatOptions())
		return one(err)
	case "parser.ParseBytes":
		_, err := parser.ParseBytes([]byte(sql))
		return one(err)
	case "parser.Validate":
		return one(parser.Validate(sql))
	case "parser.ParseWithDialect":
		_, err := parser.ParseWithDialect(sql, keywords.DialectPostgreSQL)
		return one(err)
	case "parser.ValidateBytes":
		return one(parser.ValidateBytes([]byte(sql)))
	case "parser.ValidateWithDialect":
		return one(parser.ValidateWithDialect(sql, keywords.DialectPostgreSQL))
	case "parser.ValidateBytesWithDialect":
		return one(parser.ValidateBytesWithDialect([]byte(sql), keywords.DialectMySQL))
	case "parser.ParseBytesWithDialect":
		_, err := parser.ParseBytesWithDialect([]byte(sql), keywords.DialectPostgreSQL)
		return one(err)
	case "parser.ParseBytesWithTokens":
		_, _, err := parser.ParseBytesWithTokens([]byte(sql))
		return one(err)
	case "gosqlx.ParseBytes":
		_, err := gosqlx.ParseBytes([]byte(sql))
		return one(err)
	case "gosqlx.ParseWithTimeout":
		_, err := gosqlx.ParseWithTimeout(sql, time.Hour)
		return one(err)
	case "Tokenizer.TokenizeContext":
		tkz, _ := tokenizer.New()
		_, err := tkz.TokenizeContext(context.Background(), []byte(sql))
		return one(err)
	case "Parser.Parse":
		return low("plain", false)
	case "Parser.ParseContext":
		return low("ctx", false)
	case "Parser.ParseWithPositions":
		return low("pos", false)
	case "pooled.Parser.Parse":
		return low("plain", true)
	case "Tokenizer.Tokenize":
		tkz, _ := tokenizer.New()
		_, err := tkz.Tokenize([]byte(sql))
		return one(err)
	}
	panic("unknown entry " + entry)
}

// entry points that tokenize under a dialect other than the default may classify a lexeme differently
var dialectEntry = map[string]bool{"parser.ParseWithDialect": true, "parser.ValidateWithDialect": true, "parser.ValidateBytesWithDialect": true, "parser.ParseBytesWithDialect": true}

type sig struct {
	code, msg string
	line, col int
}

func sigs(errs []error) ([]sig, error) {
	var out []sig
	for _, e := range errs {
		var se *goerrors.Error
		if !errors.As(e, &se) {
			return nil, fmt.Errorf("error does not expose a structured *errors.Error through unwrapping: %q", firstLine(e))
		}
		out = append(out, sig{string(se.Code), se.Message, se.Location.Line, se.Location.Column})
	}
	return out, nil
}

func firstLine(err error) string {
	s := err.Error()
	if i := strings.IndexByte(s, '\n'); i >= 0 {
		s = s[:i]
	}
	if len(s) > 200 {
		s = s[:200]
	}
	return s
}

func oracleErr(c ErrCase) error {
	if c.Limit == "bytes" {
		c.SQL = oversizedInput // 10 MiB + 8 bytes: kept out of the case (and of replay files)
	}
	errs := call(c.Entry, c.SQL)
	if len(errs) == 0 {
		return nil // accepted by this entry point: not in the domain
	}
	// which stage fails, known independently
	tkz, _ := tokenizer.New()
	_, lexErr := tkz.Tokenize([]byte(c.SQL))
	ss, err := sigs(errs)
	if err != nil {
		return fmt.Errorf("[%s] %v", c.Entry, err)
	}
	lines := strings.Split(c.SQL, "\n")
	var lexSig *sig
	if lexErr != nil {
		if l, e := sigs([]error{lexErr}); e == nil {
			lexSig = &l[0]
		}
	}
	for i, s := range ss {
		if !documented[s.code] {
			return fmt.Errorf("[%s] error code %q is not a documented code", c.Entry, s.code)
		}
		if strings.TrimSpace(s.msg) == "" {
			return fmt.Errorf("[%s] error %s has an empty message", c.Entry, s.code)
		}
		if lexErr != nil && !strings.HasPrefix(s.code, "E1") {
			return fmt.Errorf("[%s] lexical problem (%s) reported with non-tokenizer code %s", c.Entry, firstLine(lexErr), s.code)
		}
		if lexErr == nil && strings.HasPrefix(s.code, "E1") {
			return fmt.Errorf("[%s] input tokenizes, yet the error carries tokenizer code %s: %s", c.Entry, s.code, s.msg)
		}
		// a lexical failure is found by the same tokenizer on the same bytes whichever entry point runs it:
		// code, message and location are those the tokenizer itself reports for this input
		if lexSig != nil && i == 0 && !dialectEntry[c.Entry] && (s.code != lexSig.code || s.line != lexSig.line || s.col != lexSig.col) {
			return fmt.Errorf("[%s] lexical error reported as %s at %d:%d, the tokenizer reports %s at %d:%d for the same input", c.Entry, s.code, s.line, s.col, lexSig.code, lexSig.line, lexSig.col)
		}
		if (s.line >= 1) != (s.col >= 1) || s.line < 0 || s.col < 0 {
			return fmt.Errorf("[%s] error %s carries the half-set location %d:%d (locations are 1-based: both parts or neither)", c.Entry, s.code, s.line, s.col)
		}
		if s.line >= 1 && s.col >= 1 {
			if s.line > len(lines) || s.col > 4*len(lines[s.line-1])+1 {
				return fmt.Errorf("[%s] error %s located at %d:%d, outside the input (%d lines)", c.Entry, s.code, s.line, s.col, len(lines))
			}
		}
		var se *goerrors.Error
		errors.As(errs[i], &se)
		if se.Cause != nil && !errors.Is(errs[i], se.Cause) {
			return fmt.Errorf("[%s] wrapped cause %q is not reachable with errors.Is", c.Entry, firstLine(se.Cause))
		}
	}
	if c.Limit == "nesting" && lexErr == nil {
		found := false
		for _, e := range errs {
			found = found || chainHasCode(e, goerrors.ErrCodeRecursionDepthLimit)
		}
		if !found {
			return fmt.Errorf("[%s] nesting beyond the depth limit is reported as %s without the dedicated code %s anywhere in the unwrap chain: %s", c.Entry, ss[0].code, goerrors.ErrCodeRecursionDepthLimit, firstLine(errs[0]))
		}
	}
	// reproducible: same call again, and after unrelated activity
	gosqlx.Parse("SELECT other FROM elsewhere WHERE x = 1;\n\n  SELECT 2")
	gosqlx.Parse("SELECT ( FROM")
	again, err := sigs(call(c.Entry, c.SQL))
	if err != nil {
		return fmt.Errorf("[%s] second call: %v", c.Entry, err)
	}
	if fmt.Sprint(ss) != fmt.Sprint(again) {
		return fmt.Errorf("[%s] same input, different error on the second call:\n first:  %v\n second: %v", c.Entry, ss, again)
	}
	return nil
}

var errCheck = hx.NewCheck("structured_errors", oracleErr)

var oversizedInput = "SELECT 1" + strings.Repeat(" ", tokenizer.MaxInputSize)

// kindOf maps the drawn number to a kind of rejected input: 0-10 as before (cyclically), one draw
// in about 130 is the oversized input (10 MiB: cheap to reject, not cheap to build 40 000 times).
func kindOf(n int) int {
	if n%134 == 133 {
		return 11
	}
	return n % 11
}

func genRejected(rt *rapid.T) (string, []string) {
	f := lexgen.Features{StringStartsWithDoubledQuote: false, TrailingComment: true, Comments: true}
	switch kindOf(rapid.IntRange(0, 400).Draw(rt, "kind")) {
	case 10: // a well-formed number of another form where the statement has an integer (LIMIT 1.5, OFFSET 1e3, FETCH FIRST 99999999999999999999 ROWS)
		g := sqlgen.New(rt, sqlgen.FullFeatures())
		toks := sqlgen.Statement(g).Toks
		var ints []int
		for i, tk := range toks {
			if len(tk.Text) > 0 && tk.Text[0] >= '0' && tk.Text[0] <= '9' && !strings.ContainsAny(tk.Text, ".eE") {
				ints = append(ints, i)
			}
		}
		form := rapid.SampledFrom([]string{"1.5", "1e3", "99999999999999999999", "2.0", "7E-2", "0.0"}).Draw(rt, "numform")
		if len(ints) == 0 {
			return sqlgen.SQL(toks) + " LIMIT " + form, []string{"number_form", "failing_token_not_first"}
		}
		at := ints[rapid.IntRange(0, len(ints)-1).Draw(rt, "numat")]
		out := append([]sqlgen.Tok{}, toks...)
		out[at] = sqlgen.Tok{Text: form}
		return sqlgen.SQL(out), []string{"number_form", "failing_token_not_first"}
	case 0, 1, 2, 3, 4: // single-token corruption
		g := sqlgen.New(rt, sqlgen.FullFeatures())
		toks := sqlgen.Statement(g).Toks
		if len(toks) < 2 {
			toks = append(toks, sqlgen.Tok{Text: "x"})
		}
		r := corrupt.Apply(rt, toks)
		if len(r.Toks) == 0 {
			r.Toks = []sqlgen.Tok{{Text: ")"}}
		}
		cl := []string{"corrupt_" + r.Kind}
		if r.First > 0 {
			cl = append(cl, "failing_token_not_first")
		}
		if rapid.Bool().Draw(rt, "multiline") {
			lx := sqlgen.Lexemes(r.Toks)
			return lexgen.Render(lx, lexgen.GenSeps(rt, f, lx, "l")).Src, append(cl, "multiline")
		}
		return sqlgen.SQL(r.Toks), cl
	case 5, 6: // lexical garbage at a known stage
		g := sqlgen.New(rt, sqlgen.FullFeatures())
		prefix := sqlgen.SQL(sqlgen.Statement(g).Toks)
		bad := rapid.SampledFrom([]string{"'unterminated", "\"unterminated", "`unterminated", "'bad \\q escape'", "1.", "12e", "^", "\\", "{", "\x01", "$$never closed", "$t$ x $u$", "\"a\nb\""}).Draw(rt, "lexbad")
		sep := rapid.SampledFrom([]string{" ", "\n", "\n\n  ", " /* c */ "}).Draw(rt, "lexsep")
		return prefix + sep + bad, []string{"lexical", "failing_token_not_first"}
	case 7: // lone punctuation / keyword soup
		lx := lexgen.GenLexemes(rt, f, 8)
		return lexgen.Render(lx, lexgen.GenSeps(rt, f, lx, "s")).Src, []string{"soup"}
	case 8: // nesting limit
		n := rapid.SampledFrom([]int{101, 150, 400}).Draw(rt, "depth")
		fam := rapid.SampledFrom([]string{"paren", "func", "case", "subquery", "cte"}).Draw(rt, "family")
		var s string
		switch fam {
		case "paren":
			s = "SELECT " + strings.Repeat("(", n) + "1" + strings.Repeat(")", n)
		case "func":
			s = "SELECT " + strings.Repeat("f(", n) + "1" + strings.Repeat(")", n)
		case "case":
			s = "SELECT " + strings.Repeat("CASE WHEN ", n) + "a" + strings.Repeat(" THEN 1 END", n)
		case "subquery":
			s = "SELECT " + strings.Repeat("(SELECT ", n) + "1" + strings.Repeat(")", n)
		default:
			s = strings.Repeat("WITH c AS (", n) + "SELECT 1" + strings.Repeat(") SELECT 1", n)
		}
		return s, []string{"limit_nesting", "nest_" + fam, "failing_token_not_first"}
	case 11: // over the byte limit: rejected before anything is read
		return "", []string{"limit_bytes", "failing_token_not_first"} // the text is built by the oracle (Limit: "bytes")
	default: // statement that begins with a non-statement token
		w := rapid.SampledFrom([]string{"FROM t", "WHERE a = 1", ") SELECT 1", "x1 y2", "42", "'s'", "AND", ", a"}).Draw(rt, "start")
		return w, []string{"bad_start"}
	}
}

func TestStructuredErrors(t *testing.T) {
	hx.Rule("structured_errors", "rejected inputs (single-token corruptions of G-SQL statements in one-line and multi-line layouts, lexical errors of 13 kinds after a valid prefix, soup, nesting beyond the depth limit in 5 constructs, bad statement starts) x 15 entry points; every reported error must unwrap to *errors.Error with a documented code of the failing stage's family, non-empty message, in-range location when set, reachable cause, and be identical on a second call after unrelated parses; non-trivial = the failing token is not the first token; distinct = (entry, class, code)")
	errCheck.Rapid(t, hx.N(40000, 400000), genStructuredErrors)
}

// ---------------------------------------------------------------- an error does not depend on the statements before it

type ScriptErrCase struct {
	Before []string `json:"before"`
	Stmt   string   `json:"stmt"`
}

func recoverySigs(sql string) ([]sig, int) {
	stmts, errs := gosqlx.ParseWithRecovery(sql)
	ss, _ := sigs(errs)
	return ss, len(stmts)
}

func oracleScriptErr(c ScriptErrCase) error {
	alone, nAlone := recoverySigs(c.Stmt)
	script := strings.Join(append(append([]string{}, c.Before...), c.Stmt), " ;\n")
	all, nAll := recoverySigs(script)
	nBeforeErrs, nBeforeStmts := 0, 0
	for _, b := range c.Before {
		e, n := recoverySigs(b)
		nBeforeErrs += len(e)
		nBeforeStmts += n
	}
	if len(all) != nBeforeErrs+len(alone) || nAll != nBeforeStmts+nAlone {
		return fmt.Errorf("statement %q alone gives %d trees and %d errors, after %d other statements the script gives %d trees / %d errors instead of %d / %d",
			clipS(c.Stmt), nAlone, len(alone), len(c.Before), nAll, len(all), nBeforeStmts+nAlone, nBeforeErrs+len(alone))
	}
	for i, a := range alone {
		g := all[nBeforeErrs+i]
		if g.code != a.code || g.msg != a.msg {
			return fmt.Errorf("statement %q fails alone with %s %q but after %d other statements with %s %q", clipS(c.Stmt), a.code, a.msg, len(c.Before), g.code, g.msg)
		}
	}
	return nil
}

func clipS(s string) string {
	if len(s) > 100 {
		return s[:100] + "…"
	}
	return s
}

var scriptErrCheck = hx.NewCheck("error_independent_of_earlier_statements", oracleScriptErr)

func TestErrorIndependentOfEarlierStatements(t *testing.T) {
	hx.Rule("error_independent_of_earlier_statements", "recovery-parsed scripts: 1-4 earlier statements (valid, corrupted, failing deep inside nested constructs or sign chains) followed by a statement (invalid, or valid and nested exactly as deep as the limit allows); its verdict, error code and message must equal those it gets alone; non-trivial = an earlier statement fails; distinct = classes + sizes")
	deepest := 0
	for d := 1; d < 400; d++ {
		if _, err := gosqlx.Parse("SELECT " + strings.Repeat("(", d) + "1" + strings.Repeat(")", d)); err != nil {
			break
		}
		deepest = d
	}
	scriptErrCheck.Rapid(t, hx.N(12500, 150000), func(rt *rapid.T) ScriptErrCase {
		n := rapid.IntRange(1, 4).Draw(rt, "nbefore")
		var c ScriptErrCase
		failing := false
		var cl []string
		for i := 0; i < n; i++ {
			switch rapid.IntRange(0, 3).Draw(rt, "beforekind") {
			case 0:
				f := sqlgen.AllFeatures()
				f.Flat, f.MaxDepth = true, 2
				c.Before = append(c.Before, sqlgen.SQL(sqlgen.Statement(sqlgen.New(rt, f)).Toks))
				cl = append(cl, "valid")
			case 1:
				d := rapid.IntRange(1, 70).Draw(rt, "d")
				c.Before = append(c.Before, rapid.SampledFrom([]string{"SELECT " + strings.Repeat("- ", d) + "FROM t", "SELECT " + strings.Repeat("(", d) + "1 +",
					"SELECT " + strings.Repeat("f(", d) + ")", "SELECT a FROM t WHERE " + strings.Repeat("NOT (", d) + "a = ", "SELECT " + strings.Repeat("CASE WHEN ", d) + "THEN"}).Draw(rt, "fam"))
				failing = true
				cl = append(cl, "deep_failure")
			default:
				f := sqlgen.AllFeatures()
				f.Flat, f.MaxDepth = true, 2
				toks := sqlgen.Statement(sqlgen.New(rt, f)).Toks
				if len(toks) >= 2 {
					toks = corrupt.Apply(rt, toks).Toks
				}
				c.Before = append(c.Before, sqlgen.SQL(toks))
				failing = true
				cl = append(cl, "corrupted")
			}
		}
		switch rapid.IntRange(0, 2).Draw(rt, "stmtkind") {
		case 0:
			c.Stmt = "SELECT " + strings.Repeat("(", deepest) + "1" + strings.Repeat(")", deepest)
			cl = append(cl, "stmt_at_depth_limit")
		case 1:
			c.Stmt = "SELECT a FROM t WHERE )"
			cl = append(cl, "stmt_invalid")
		default:
			c.Stmt = "DELETE FROM t1 WHERE a = ( 1"
			cl = append(cl, "stmt_invalid")
		}
		for i := range c.Before { // segments must not contain statement separators or statement-start words past their first token
			c.Before[i] = strings.ReplaceAll(c.Before[i], ";", ",")
		}
		hx.Case("error_independent_of_earlier_statements", failing, strings.Join(cl, ","))
		hx.Sample("error_independent_of_earlier_statements", c)
		return c
	})
}

// genStructuredErrors is the case generator of errCheck (shared by the rapid run and the native fuzz target).
func genStructuredErrors(rt *rapid.T) ErrCase {
	s, cl := genRejected(rt)
	oversized := len(cl) > 0 && cl[0] == "limit_bytes"
	if oversized {
		// nothing else is drawn for it
	} else if lead := rapid.SampledFrom([]string{"", "", "", "\n", "\n\n\n  ", "\r\n\t", " \n", "-- c\n\n", "\t\t"}).Draw(rt, "lead"); lead != "" {
		// blank lines, indentation or a comment line in front: locations count from the start of the text given
		s = lead + s
		cl = append(cl, "leading_layout")
	}
	e := rapid.SampledFrom(entries).Draw(rt, "entry")
	nt := false
	for _, c := range cl {
		if c == "failing_token_not_first" {
			nt = true
		}
	}
	code := ""
	probe := s
	if oversized {
		probe = oversizedInput
	}
	if errs := call("gosqlx.Parse", probe); len(errs) > 0 {
		var se *goerrors.Error
		if errors.As(errs[0], &se) {
			code = string(se.Code)
		}
		cl = append(cl, "code_"+code, "rejected")
	} else {
		cl = append(cl, "accepted_after_corruption")
	}
	hx.Case("structured_errors", nt && code != "", e+"|"+strings.Join(cl, ",")+fmt.Sprint(len(s)/8), append(cl, "entry_"+e)...)
	hx.Sample("structured_errors", map[string]string{"entry": e, "sql": s})
	lim := ""
	for _, c := range cl {
		if c == "limit_nesting" {
			lim = "nesting"
		}
		if c == "limit_bytes" {
			lim = "bytes"
		}
	}
	return ErrCase{SQL: s, Entry: e, Limit: lim}
}

// FuzzStructuredErrors: coverage-guided search over the same generator (thorough tier).
func FuzzStructuredErrors(f *testing.F) { errCheck.Fuzz(f, genStructuredErrors) }
