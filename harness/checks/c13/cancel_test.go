package c13

import (
	"context"
	"errors"
	"fmt"
	"strings"
	"testing"

	"github.com/ajitpratap0/GoSQLX/pkg/gosqlx"
	"github.com/ajitpratap0/GoSQLX/pkg/sql/parser"
	"github.com/ajitpratap0/GoSQLX/pkg/sql/tokenizer"
	"pgregory.net/rapid"
	"verif/gen/sqlgen"
	"verif/internal/cctx"
	"verif/internal/hx"
)

// CancelCase: a well-formed statement parsed under a context that becomes done at its
// FireAt-th poll. Whatever construct the parser is in when it notices, the error it
// returns wraps the context's error: the cause must stay reachable with errors.Is.
type CancelCase struct {
	SQL      string `json:"sql"`
	Entry    string `json:"entry"` // gosqlx.ParseWithContext | Parser.ParseContext | Parser.ParseContextFromModelTokens | Tokenizer.TokenizeContext
	FireAt   int    `json:"fire_at"`
	Deadline bool   `json:"deadline"`
}

var cancelEntries = []string{"gosqlx.ParseWithContext", "Parser.ParseContextFromModelTokens", "Tokenizer.TokenizeContext", "strict.Parser.ParseContextFromModelTokens"}

func runCancel(entry string, ctx context.Context, sql string) error {
	switch entry {
	case "gosqlx.ParseWithContext":
		_, err := gosqlx.ParseWithContext(ctx, sql)
		return err
	case "Tokenizer.TokenizeContext":
		tkz, _ := tokenizer.New()
		_, err := tkz.TokenizeContext(ctx, []byte(sql))
		return err
	}
	tkz, _ := tokenizer.New()
	toks, err := tkz.Tokenize([]byte(sql))
	if err != nil {
		return nil
	}
	var p *parser.Parser
	if strings.HasPrefix(entry, "strict.") {
		p = parser.NewParser(parser.WithStrictMode())
	} else {
		p = parser.NewParser()
	}
	defer p.Release()
	_, err = p.ParseContextFromModelTokens(ctx, toks)
	return err
}

func oracleCancel(c CancelCase) error {
	never := cctx.New(-1, nil)
	if err := runCancel(c.Entry, never, c.SQL); err != nil {
		return nil // rejected anyway: an ordinary error may legitimately come first
	}
	cause := context.Canceled
	if c.Deadline {
		cause = context.DeadlineExceeded
	}
	ctx := cctx.New(c.FireAt, cause)
	err := runCancel(c.Entry, ctx, c.SQL)
	if err == nil {
		return nil // the context fired after the last poll of this call (C11 bounds that)
	}
	if !errors.Is(err, cause) {
		return fmt.Errorf("[%s] context done at poll %d of %d: the returned error does not wrap the context's error (errors.Is(err, %v) is false): %s", c.Entry, c.FireAt, never.Polls, cause, firstLine(err))
	}
	var again error
	ctx2 := cctx.New(c.FireAt, cause)
	again = runCancel(c.Entry, ctx2, c.SQL)
	if again == nil || again.Error() != err.Error() {
		return fmt.Errorf("[%s] context done at poll %d: same input and same firing poll, different error on the second call:\n first:  %s\n second: %v", c.Entry, c.FireAt, firstLine(err), again)
	}
	return nil
}

var cancelCheck = hx.NewCheck("cancellation_cause_reachable", oracleCancel)

func genCancel(rt *rapid.T) CancelCase {
	g := sqlgen.New(rt, sqlgen.FullFeatures())
	st := sqlgen.Statement(g)
	c := CancelCase{SQL: sqlgen.SQL(st.Toks), Entry: rapid.SampledFrom(cancelEntries).Draw(rt, "entry"), Deadline: rapid.Bool().Draw(rt, "deadline")}
	never := cctx.New(-1, nil)
	runCancel(c.Entry, never, c.SQL)
	polls := never.Polls
	if polls < 1 {
		polls = 1
	}
	c.FireAt = rapid.IntRange(0, polls-1).Draw(rt, "fire_at")
	var cl []string
	for k := range st.Stats {
		if k == "case" || k == "scalar_subquery" || k == "with" || k == "window_frame" || k == "derived_table" || k == "in_subquery" || k == "exists" {
			cl = append(cl, "inside_"+k)
		}
	}
	hx.Case("cancellation_cause_reachable", c.FireAt >= 2, fmt.Sprint(c.Entry, st.Kind, c.FireAt, polls, len(st.Toks)), append(cl, "entry_"+c.Entry, "kind_"+st.Kind)...)
	hx.Sample("cancellation_cause_reachable", c)
	return c
}

func TestCancellationCauseReachable(t *testing.T) {
	hx.Rule("cancellation_cause_reachable", "well-formed G-SQL statements (all statement kinds) under a counting context that becomes done at a drawn poll (Canceled or DeadlineExceeded) x 4 context-taking entry points; when an error is returned the context's error must be reachable with errors.Is, whatever construct (CASE, nested query, CTE, window frame, DDL expression) the parser was in, and the same firing poll must give the same error text again; non-trivial = the context fires at the third poll or later (inside the statement); distinct = entry + statement kind + firing poll + size")
	cancelCheck.Rapid(t, hx.N(15000, 200000), genCancel)
}

func FuzzCancellationCauseReachable(f *testing.F) { cancelCheck.Fuzz(f, genCancel) }
