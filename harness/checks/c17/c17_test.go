package c17

import (
	"encoding/json"
	"fmt"
	"strings"
	"testing"
	"unicode/utf8"

	"github.com/ajitpratap0/GoSQLX/pkg/linter"
	"github.com/ajitpratap0/GoSQLX/pkg/linter/rules/keywords"
	"github.com/ajitpratap0/GoSQLX/pkg/linter/rules/style"
	"github.com/ajitpratap0/GoSQLX/pkg/linter/rules/whitespace"
	"github.com/ajitpratap0/GoSQLX/pkg/sql/tokenizer"
	"pgregory.net/rapid"
	"verif/gen/lexgen"
	"verif/gen/sqlgen"
	"verif/internal/hx"
	"verif/internal/lspx"
	"verif/internal/obs"
)

func TestMain(m *testing.M) { hx.Main(m, "C17") }

const maxLen = 100

// the CLI's rule set, in the CLI's order (cmd/gosqlx/cmd/lint.go createLinter)
func cliRules() []linter.Rule {
	return []linter.Rule{
		whitespace.NewTrailingWhitespaceRule(),
		whitespace.NewMixedIndentationRule(),
		whitespace.NewConsecutiveBlankLinesRule(1),
		whitespace.NewIndentationDepthRule(4, 4),
		whitespace.NewLongLinesRule(maxLen),
		whitespace.NewRedundantWhitespaceRule(),
		style.NewColumnAlignmentRule(),
		style.NewCommaPlacementRule(style.CommaTrailing),
		style.NewAliasingConsistencyRule(true),
		keywords.NewKeywordCaseRule(keywords.CaseUpper),
	}
}

type FixCase struct {
	Text string `json:"text"`
	Rule string `json:"rule"` // rule id, or "all" for the CLI's sequence
}

type tokView struct {
	kind, value string
}

// view tokenizes text; keyword tokens are case-folded (a rule may re-case them).
func view(text string) ([]tokView, []string, error) {
	tkz, _ := tokenizer.New()
	toks, err := tkz.Tokenize([]byte(text))
	if err != nil {
		return nil, nil, err
	}
	var out []tokView
	for _, o := range obs.Observe(toks) {
		v := o.Value
		if o.Kind == "kw" || o.Kind == "id" {
			// an unquoted word: its letter case may change when it is a keyword of the rule;
			// compare case-insensitively for words, exactly for everything else
			v = strings.ToUpper(v)
			out = append(out, tokView{"word", v})
			continue
		}
		out = append(out, tokView{o.Kind, v})
	}
	var cs []string
	for _, c := range tkz.Comments {
		t := c.Text
		if strings.HasPrefix(t, "--") {
			// blanks between a line comment's last visible character and the line end are layout
			t = strings.TrimRight(t, " \t\r")
		}
		cs = append(cs, t)
	}
	return out, cs, nil
}

// applyFix runs one rule's Check+Fix, or all fixable rules in CLI order.
func applyFix(text, ruleID string) (string, []string, error) {
	rules := cliRules()
	res := linter.New(rules...).LintString(text, "case.sql")
	if res.Error != nil {
		return "", nil, res.Error
	}
	out := text
	var applied []string
	for _, r := range rules {
		if !r.CanAutoFix() || (ruleID != "all" && r.ID() != ruleID) {
			continue
		}
		fixed, err := r.Fix(out, res.Violations)
		if err != nil {
			continue
		}
		if fixed != out {
			applied = append(applied, r.ID())
		}
		out = fixed
	}
	return out, applied, nil
}

func oracleFix(c FixCase) error {
	inToks, inComments, err := view(c.Text)
	if err != nil {
		return nil // only tokenizable text has a token sequence to preserve
	}
	// every reported location names an existing line and column
	lines := strings.Split(c.Text, "\n")
	res := linter.New(cliRules()...).LintString(c.Text, "case.sql")
	for _, v := range res.Violations {
		if v.Location.Line < 1 || v.Location.Line > len(lines) {
			return fmt.Errorf("%s reports line %d of a %d-line text", v.Rule, v.Location.Line, len(lines))
		}
		l := lines[v.Location.Line-1]
		// widest convention in use in this code base: a tab counts as 4 columns
		width := 0
		for i := 0; i < len(l); i++ {
			if l[i] == '\t' {
				width += 4
			} else {
				width++
			}
		}
		if v.Location.Column < 1 || v.Location.Column > width+1 {
			return fmt.Errorf("%s reports column %d on line %d, which is %d columns wide (tabs counted as 4)", v.Rule, v.Location.Column, v.Location.Line, width)
		}
	}
	out, applied, err := applyFix(c.Text, c.Rule)
	if err != nil {
		return fmt.Errorf("fix failed: %v", err)
	}
	outToks, outComments, err := view(out)
	if err != nil {
		return fmt.Errorf("[%s] the fixed text no longer tokenizes (%v)\n in:  %q\n out: %q", c.Rule, first(err), c.Text, out)
	}
	if len(inToks) != len(outToks) {
		return fmt.Errorf("[%s] the fix changed the number of tokens from %d to %d\n in:  %q\n out: %q", c.Rule, len(inToks), len(outToks), c.Text, out)
	}
	for i := range inToks {
		if inToks[i] != outToks[i] {
			return fmt.Errorf("[%s] token %d changed from %s %q to %s %q\n in:  %q\n out: %q", c.Rule, i, inToks[i].kind, inToks[i].value, outToks[i].kind, outToks[i].value, c.Text, out)
		}
	}
	if fmt.Sprint(inComments) != fmt.Sprint(outComments) {
		return fmt.Errorf("[%s] comment text changed: %q -> %q\n in:  %q\n out: %q", c.Rule, inComments, outComments, c.Text, out)
	}
	// fixed point
	again, _, err := applyFix(out, c.Rule)
	if err != nil {
		return fmt.Errorf("second fix failed: %v", err)
	}
	if again != out {
		return fmt.Errorf("[%s] applying the same fixes again changes the text\n first:  %q\n second: %q", c.Rule, out, again)
	}
	// no remaining violation of a rule whose fix was applied
	left := linter.New(cliRules()...).LintString(out, "case.sql")
	for _, v := range left.Violations {
		for _, a := range applied {
			if v.Rule == a {
				return fmt.Errorf("[%s] after its fix was applied, %s still reports line %d col %d: %s\n in:  %q\n out: %q", c.Rule, a, v.Location.Line, v.Location.Column, v.Message, c.Text, out)
			}
		}
	}
	return nil
}

func first(err error) string {
	s := err.Error()
	if i := strings.IndexByte(s, '\n'); i >= 0 {
		s = s[:i]
	}
	return s
}

var fixCheck = hx.NewCheck("fix_preserves_tokens", oracleFix)

// ---------------------------------------------------------------- hostile text generator

var hostileStrings = []string{
	"'a  b'", "'select  from   where'", "'x \n  from   y \n\n\n\nend'", "'trailing   \nnext'", "'tab\there'", "'it''s  ok'", "'\n\n\n'", "'-- not a comment  '",
	"'/* not  a comment */'", "'  lead'", "'mixed \t \n\t indent'", "'size 5\"  wide'", "'ünï  cödé'", "$té$ select  x \n  y $té$", "$q$ from  where $q$",
}
var hostileIdents = []string{`"select"`, `"from  x"`, `"Order By"`, `"a  b"`, `"owner's  col"`}
var hostileComments = []string{"-- it's  a  comment", "-- select  from where", "/* a  b\n\n\n\n  c */", "/* it's */", "/* trailing   \n   spaces */", "--\ttabbed  'quote", "/* \"dq  \" */", "-- trailing   "}
var seps = []string{" ", " ", "  ", "   ", "\n", "\n    ", "\n\t", "\n \t", "\n\t ", " \n", "  \n", "\t\n", "\n\n", "\n\n\n", "\n \n\n\n", "\r\n", " \r\n", "\n        ", "\n\t\t", "\n\t  ", "\n \t  ", "\n\t   "}

func genHostile(rt *rapid.T) (string, []string) {
	f := sqlgen.FullFeatures()
	f.MaxDepth = 2
	f.KeywordCase = true
	f.NoBackslashQuote = !hx.Allowed("c17.backslash_quote")
	nst := rapid.IntRange(1, 3).Draw(rt, "nstmts")
	var b strings.Builder
	cl := map[string]bool{}
	for s := 0; s < nst; s++ {
		toks := sqlgen.Statement(sqlgen.New(rt, f)).Toks
		for i, t := range toks {
			text := t.Text
			// swap some literals / identifiers for hostile ones
			if strings.HasPrefix(text, "'") && rapid.IntRange(0, 2).Draw(rt, "hs") == 0 {
				pool := hostileStrings
				if hx.Allowed("c17.backslash_quote") {
					// backslash-escaped quotes (a listed finding switches them off)
					pool = append(append([]string{}, hostileStrings...), `'it\'s  fine'`, `'a\'  select  b'`)
				}
				text = rapid.SampledFrom(pool).Draw(rt, "hstr")
				if strings.Contains(text, "\n") {
					cl["multiline_literal"] = true
				}
			} else if strings.HasPrefix(text, "$") && len(text) <= 3 && rapid.IntRange(0, 1).Draw(rt, "hp") == 0 {
				// a named placeholder spelled like a keyword: one token whose name is not a keyword
				text = rapid.SampledFrom([]string{"@End", "@from", "@Select", "@x"}).Draw(rt, "hph")
				cl["keyword_spelled_placeholder"] = true
			} else if strings.HasPrefix(text, `"`) && rapid.IntRange(0, 1).Draw(rt, "hi") == 0 {
				text = rapid.SampledFrom(hostileIdents).Draw(rt, "hid")
				cl["keyword_spelled_quoted_ident"] = true
			}
			if i > 0 || s > 0 {
				sep := rapid.SampledFrom(seps).Draw(rt, "sep")
				if rapid.IntRange(0, 9).Draw(rt, "cmt") == 0 {
					c := rapid.SampledFrom(hostileComments).Draw(rt, "hc")
					if strings.HasPrefix(c, "--") {
						// the line comment ends with its line: LF or CRLF, with or without trailing blanks
						c += rapid.SampledFrom([]string{"\n", "\n", "  \n", "\r\n", "  \r\n", " \t\r\n"}).Draw(rt, "cmt_eol")
					}
					sep = sep + c + rapid.SampledFrom([]string{"", " ", "\n", "  "}).Draw(rt, "aftercmt")
					cl["comment_with_quote_or_keyword"] = true
				}
				// a separator must separate: words need at least one blank between them
				if strings.TrimLeft(sep, " \t\r\n") == sep && sep == "" {
					sep = " "
				}
				// ... but a keyword needs none before a literal, a quoted identifier or a block comment:
				// or'y', from"select", select/* c */a
				if prev := toks[max(i-1, 0)]; i > 0 && prev.KW && len(prev.Text) >= 2 && rapid.IntRange(0, 5).Draw(rt, "glued") == 0 {
					switch {
					case strings.HasPrefix(text, "'") || strings.HasPrefix(text, `"`):
						sep = ""
						cl["keyword_glued_to_quoted_token"] = true
					case rapid.Bool().Draw(rt, "glued_comment"):
						sep = rapid.SampledFrom([]string{"/* it's */", "/* a  b */", "/**/", "/* \"q */"}).Draw(rt, "glue_cmt")
						cl["keyword_glued_to_comment"] = true
						cl["comment_with_quote_or_keyword"] = true
					}
				}
				b.WriteString(sep)
			}
			b.WriteString(text)
		}
		if s < nst-1 || rapid.Bool().Draw(rt, "semi") {
			b.WriteString(rapid.SampledFrom([]string{";", " ;", ";  ", ";\n\n\n"}).Draw(rt, "semi_sp"))
		}
	}
	if rapid.IntRange(0, 5).Draw(rt, "dollar_run") == 0 {
		// a run of dollar-quoted strings, tags repeating and alternating: each body is literal content
		nd := rapid.IntRange(2, 6).Draw(rt, "ndollar")
		b.WriteString(rapid.SampledFrom([]string{"\n", " ;\n", ";\n\n"}).Draw(rt, "dollar_lead"))
		b.WriteString("SELECT ")
		for d := 0; d < nd; d++ {
			if d > 0 {
				b.WriteString(rapid.SampledFrom([]string{", ", " , ", ",\n  ", ","}).Draw(rt, "dollar_sep"))
			}
			tag := rapid.SampledFrom([]string{"", "", "q", "té", "Q", "q"}).Draw(rt, "dollar_tag")
			body := rapid.SampledFrom([]string{"a", "b  c", "select  x from  t", "it's", " from  where \n\n\n\n x   \n", "-- no  comment", "$", "$ q$ $x", "'", "/* open"}).Draw(rt, "dollar_body")
			if tag == "" && strings.Contains(body, "$") {
				body = "plain  body"
			}
			b.WriteString("$" + tag + "$" + body + "$" + tag + "$")
			if strings.Contains(body, "\n") {
				cl["multiline_literal"] = true
			}
		}
		b.WriteString(" from t1")
		cl["dollar_string_run"] = true
	}
	b.WriteString(rapid.SampledFrom([]string{"", "\n", "  \n", "\n\n\n", " ", "\n\n", "\r\n\r\n", "\r\n"}).Draw(rt, "tail"))
	text := b.String()
	if rapid.IntRange(0, 7).Draw(rt, "longline") == 0 {
		text += "\nSELECT " + strings.Repeat("col_a, ", rapid.IntRange(12, 16).Draw(rt, "ncols")) + "b FROM t1"
		cl["long_line"] = true
	}
	if rapid.IntRange(0, 9).Draw(rt, "commentline") == 0 {
		// long lines that begin with a comment: only comments (exempt from the length rule) or a comment and then SQL
		body := strings.Repeat("note ", rapid.IntRange(19, 24).Draw(rt, "cmtlen"))
		switch rapid.IntRange(0, 4).Draw(rt, "commentline_kind") {
		case 0:
			text += "\n-- " + body
		case 1:
			text += "\n  /* " + body + "*/"
		case 2:
			text += "\n/* a */ /* " + body + "*/ -- tail"
		case 3:
			text += "\n/* it's */ SELECT " + strings.Repeat("col_a, ", 14) + "b FROM t1"
		default:
			text += "\n/* a */ /* b */ select " + strings.Repeat("col_a , ", 13) + "b from t1 -- tail"
		}
		cl["long_line_beginning_with_comment"] = true
		cl["comment_with_quote_or_keyword"] = true
	}
	if rapid.IntRange(0, 9).Draw(rt, "boundaryline") == 0 {
		// lines whose length is within one of the limit, in characters: CRLF endings and non-ASCII text must not matter
		n := maxLen + rapid.IntRange(-1, 1).Draw(rt, "boundarydelta")
		head := rapid.SampledFrom([]string{"SELECT ", "SELECT 'é', "}).Draw(rt, "boundaryhead")
		line := head + strings.Repeat("a", n-utf8.RuneCountInString(head)-len(" FROM t1")) + " FROM t1"
		text += "\n" + line + rapid.SampledFrom([]string{"\n", "\r\n", ""}).Draw(rt, "boundaryeol")
		cl["boundary_length_line"] = true
	}
	var cs []string
	for k := range cl {
		cs = append(cs, k)
	}
	return text, cs
}

func TestFixPreservesTokens(t *testing.T) {
	hx.Rule("fix_preserves_tokens", "G-SQL statements laid out with hostile separators (double spaces, tabs, mixed indentation, trailing blanks, blank-line runs, CRLF), multi-line string literals containing keywords/double spaces/blank lines/trailing blanks, keyword-spelled quoted identifiers and comments containing quotes and keywords; each auto-fixable rule's Fix alone and all fixes in the CLI's order: token sequence and comment texts preserved (unquoted words compared case-insensitively), fixed point, no remaining violation of an applied rule, every violation location inside the text; non-trivial = text has a multi-line literal, a comment with quote/keyword or a keyword-spelled quoted identifier; distinct = rule + class set + size")
	fixCheck.Rapid(t, hx.N(25000, 300000), genFixPreservesTokens)
}

var _ = lexgen.KString
var _ = utf8.RuneLen

// ---------------------------------------------------------------- layout rules flag exactly what they name

type ExactCase struct {
	Text string `json:"text"`
}

var l007Documented = map[string]bool{}

func init() {
	for _, w := range strings.Fields("SELECT FROM WHERE AND OR NOT IN IS NULL LIKE BETWEEN EXISTS CASE WHEN THEN ELSE END AS ON JOIN INNER LEFT RIGHT FULL OUTER CROSS NATURAL GROUP BY HAVING ORDER ASC DESC LIMIT OFFSET UNION ALL EXCEPT INTERSECT INSERT INTO VALUES UPDATE SET DELETE CREATE TABLE INDEX VIEW DROP ALTER WITH RECURSIVE DISTINCT OVER PARTITION MERGE ROLLUP CUBE") {
		l007Documented[w] = true
	}
}

type lineCol struct{ line, col int }

func oracleExact(c ExactCase) error {
	toks, err := lexgen.RefLex(c.Text)
	if err != nil {
		return nil // outside the reference lexical grammar
	}
	n := len(c.Text)
	protected := make([]bool, n)
	for _, t := range toks {
		switch t.Kind {
		case lexgen.KString, lexgen.KQIdent, lexgen.KBIdent:
			for i := t.Off; i < t.End; i++ {
				protected[i] = true
			}
		case lexgen.KComment:
			end := t.End
			if strings.HasPrefix(t.Value, "--") {
				for end > t.Off && (c.Text[end-1] == ' ' || c.Text[end-1] == '\t' || c.Text[end-1] == '\r') {
					end-- // blanks before the line end are layout
				}
			}
			for i := t.Off; i < end; i++ {
				protected[i] = true
			}
		}
	}
	lines := strings.Split(c.Text, "\n")
	offs := make([]int, len(lines))
	o := 0
	for i, l := range lines {
		offs[i] = o
		o += len(l) + 1
	}
	prot := func(off int) bool { return off < n && protected[off] }
	// does line i start inside a protected element (the newline before it is protected)?
	startsInside := func(i int) bool { return i > 0 && prot(offs[i]-1) }

	// commentOnly: the first visible character of line i opens a comment, and no token other than comments
	// has a byte on the line
	commentOnly := func(i int) bool {
		lo, hi := offs[i], offs[i]+len(lines[i])
		fb := lo
		for fb < hi && (c.Text[fb] == ' ' || c.Text[fb] == '\t' || c.Text[fb] == '\r') {
			fb++
		}
		opens := false
		for _, t := range toks {
			if t.End <= lo || t.Off >= hi {
				continue
			}
			if t.Kind != lexgen.KComment {
				return false
			}
			if t.Off == fb {
				opens = true
			}
		}
		return opens
	}
	want := map[string]map[lineCol]bool{"L001": {}, "L003": {}, "L005": {}, "L010": {}, "L007": {}}
	skipLong := map[int]bool{}
	run := 0
	runStart := 0
	flush := func() {
		if run > 1 {
			want["L003"][lineCol{runStart + 1, 1}] = true
		}
		run = 0
	}
	for i, l := range lines {
		if i == len(lines)-1 && l == "" && i > 0 {
			break // the text ends with a newline: what follows it is not a line
		}
		// L001: the line, minus one optional CR, ends in a space or tab that is not content
		e := len(l)
		if e > 0 && l[e-1] == '\r' {
			e--
		}
		s := e
		for s > 0 && (l[s-1] == ' ' || l[s-1] == '\t') && !prot(offs[i]+s-1) {
			s--
		}
		if s < e {
			want["L001"][lineCol{i + 1, s + 1}] = true
		}
		// L003: runs of more than one blank line (blank lines inside literals/comments are content)
		if strings.TrimSpace(l) == "" && !startsInside(i) {
			if run == 0 {
				runStart = i
			}
			run++
		} else {
			flush()
		}
		// L005: longer than the maximum, in characters, the CR of a CRLF ending not counted; a line that holds
		// nothing but comments which begin on it is exempt (the rule's stated intent: comment-only lines)
		if utf8.RuneCountInString(strings.TrimSuffix(l, "\r")) > maxLen && !commentOnly(i) {
			want["L005"][lineCol{i + 1, 0}] = true
		}
		// L010: two or more consecutive spaces in code, after the indentation
		ind := 0
		if !startsInside(i) {
			for ind < len(l) && (l[ind] == ' ' || l[ind] == '\t') {
				ind++
			}
		}
		for k := ind; k < len(l); {
			if l[k] == ' ' && !prot(offs[i]+k) {
				j := k
				for j < len(l) && l[j] == ' ' && !prot(offs[i]+j) {
					j++
				}
				if j-k >= 2 {
					want["L010"][lineCol{i + 1, k + 1}] = true
				}
				k = j
			} else {
				k++
			}
		}
	}
	flush()
	// L007: unquoted keyword of the documented list not in upper case
	for _, t := range toks {
		if t.Kind == lexgen.KWord && l007Documented[strings.ToUpper(t.Value)] && t.Value != strings.ToUpper(t.Value) {
			ln := strings.Count(c.Text[:t.Off], "\n")
			want["L007"][lineCol{ln + 1, t.Off - offs[ln] + 1}] = true
		}
	}

	res := linter.New(cliRules()...).LintString(c.Text, "case.sql")
	got := map[string]map[lineCol]bool{"L001": {}, "L003": {}, "L005": {}, "L010": {}, "L007": {}}
	for _, v := range res.Violations {
		m, ok := got[v.Rule]
		if !ok {
			continue
		}
		k := lineCol{v.Location.Line, v.Location.Column}
		if v.Rule == "L005" {
			if skipLong[v.Location.Line] {
				continue
			}
			k.col = 0
		}
		if v.Rule == "L007" {
			// only the documented keywords are asserted
			w := ""
			if v.Location.Line >= 1 && v.Location.Line <= len(lines) {
				l := lines[v.Location.Line-1]
				if c0 := v.Location.Column - 1; c0 >= 0 && c0 <= len(l) {
					e := c0
					for e < len(l) && (l[e] == '_' || l[e] >= 'a' && l[e] <= 'z' || l[e] >= 'A' && l[e] <= 'Z' || l[e] >= '0' && l[e] <= '9') {
						e++
					}
					w = strings.ToUpper(l[c0:e])
				}
			}
			if !l007Documented[w] && !want["L007"][k] {
				continue
			}
		}
		m[k] = true
	}
	names := map[string]string{"L001": "trailing blanks", "L003": "a run of more than one blank line", "L005": "a line longer than 100", "L010": "repeated spaces outside literals", "L007": "a documented keyword not in upper case"}
	for _, id := range []string{"L001", "L003", "L005", "L010", "L007"} {
		for k := range want[id] {
			if !got[id][k] {
				return fmt.Errorf("%s: line %d (col %d) has %s but is not reported\n text: %q", id, k.line, k.col, names[id], c.Text)
			}
		}
		for k := range got[id] {
			if !want[id][k] {
				return fmt.Errorf("%s: reports line %d (col %d) which has no %s\n text: %q", id, k.line, k.col, names[id], c.Text)
			}
		}
	}
	return nil
}

var exactCheck = hx.NewCheck("layout_rules_exact", oracleExact)

func TestLayoutRulesExact(t *testing.T) {
	hx.Rule("layout_rules_exact", "same hostile texts; reference predicates written from docs/LINTING_RULES.md and evaluated with the reference lexer's knowledge of where literals and comments are: L001 trailing blanks (minus one CR), L003 runs of > 1 blank line, L005 length > 100 (only where bytes and runes agree), L010 >= 2 spaces in code after the indentation, L007 documented keyword not upper-case; the reported (line, column) sets must equal the reference sets; non-trivial/distinct as fix_preserves_tokens")
	exactCheck.Rapid(t, hx.N(20000, 200000), genFixExact)
}

// ---------------------------------------------------------------- the language server's format action

type LSPFormatCase struct {
	Text    string `json:"text"`
	TabSize int    `json:"tab_size"`
	Spaces  bool   `json:"insert_spaces"`
}

// lspFormat opens text in a fresh server, asks for textDocument/formatting and
// applies the returned edits to text under the protocol's position rules.
func lspFormat(text string, tabSize int, spaces bool) (string, error) {
	c := lspx.Start()
	defer c.Close()
	uri := "file:///f.sql"
	tj, _ := json.Marshal(text)
	c.Send(`{"jsonrpc":"2.0","id":"i","method":"initialize","params":{"capabilities":{}}}`)
	c.Send(fmt.Sprintf(`{"jsonrpc":"2.0","method":"textDocument/didOpen","params":{"textDocument":{"uri":%q,"languageId":"sql","version":1,"text":%s}}}`, uri, tj))
	c.Send(fmt.Sprintf(`{"jsonrpc":"2.0","id":"f","method":"textDocument/formatting","params":{"textDocument":{"uri":%q},"options":{"tabSize":%d,"insertSpaces":%v}}}`, uri, tabSize, spaces))
	if err := c.Sync("s"); err != nil {
		return "", fmt.Errorf("server did not survive the formatting request: %v", err)
	}
	frames, died, ferr := c.Snapshot()
	if died != "" || ferr != nil {
		return "", fmt.Errorf("server trouble: %s %v", died, ferr)
	}
	for _, f := range frames {
		if f.HasID && f.ID == "f" {
			if len(f.Error) > 0 && string(f.Error) != "null" {
				return text, nil // the request was refused: nothing is rewritten
			}
			var edits []struct {
				Range struct {
					Start, End struct{ Line, Character int }
				}
				NewText string
			}
			if len(f.Result) == 0 || string(f.Result) == "null" {
				return text, nil
			}
			if err := json.Unmarshal(f.Result, &edits); err != nil {
				return "", fmt.Errorf("formatting result does not parse: %v", err)
			}
			out := text
			// edits are applied from the last to the first so earlier offsets stay valid
			for i := len(edits) - 1; i >= 0; i-- {
				e := edits[i]
				var ok bool
				out, ok = lspx.Apply(out, e.Range.Start.Line, e.Range.Start.Character, e.Range.End.Line, e.Range.End.Character, e.NewText)
				if !ok {
					return "", fmt.Errorf("formatting returned an invalid range %+v", e.Range)
				}
			}
			return out, nil
		}
	}
	return "", fmt.Errorf("no response to the formatting request")
}

func oracleLSPFormat(c LSPFormatCase) error {
	inToks, inComments, err := view(c.Text)
	if err != nil {
		return nil
	}
	out, err := lspFormat(c.Text, c.TabSize, c.Spaces)
	if err != nil {
		return err
	}
	outToks, outComments, err := view(out)
	if err != nil {
		return fmt.Errorf("the formatted document no longer tokenizes (%v)\n in:  %q\n out: %q", first(err), c.Text, out)
	}
	if len(inToks) != len(outToks) {
		return fmt.Errorf("formatting changed the number of tokens from %d to %d\n in:  %q\n out: %q", len(inToks), len(outToks), c.Text, out)
	}
	for i := range inToks {
		if inToks[i] != outToks[i] {
			return fmt.Errorf("formatting changed token %d from %s %q to %s %q\n in:  %q\n out: %q", i, inToks[i].kind, inToks[i].value, outToks[i].kind, outToks[i].value, c.Text, out)
		}
	}
	if fmt.Sprint(inComments) != fmt.Sprint(outComments) {
		return fmt.Errorf("formatting changed comment text: %q -> %q\n in:  %q\n out: %q", inComments, outComments, c.Text, out)
	}
	again, err := lspFormat(out, c.TabSize, c.Spaces)
	if err != nil {
		return err
	}
	if again != out {
		return fmt.Errorf("formatting the formatted document changes it again\n first:  %q\n second: %q", out, again)
	}
	return nil
}

var lspFormatCheck = hx.NewCheck("lsp_format_preserves_tokens", oracleLSPFormat)

func TestLSPFormatPreservesTokens(t *testing.T) {
	hx.Rule("lsp_format_preserves_tokens", "same hostile texts opened in a real language server; textDocument/formatting is requested (tab sizes 0, 2, 4, 8 and -1, spaces or tabs) and the returned edits are applied under the protocol's UTF-16 position rules; token sequence and comments preserved, second formatting is a no-op; non-trivial/distinct as fix_preserves_tokens")
	lspFormatCheck.Rapid(t, hx.N(7500, 60000), func(rt *rapid.T) LSPFormatCase {
		text, cl := genHostile(rt)
		if rapid.IntRange(0, 3).Draw(rt, "nonascii") == 0 {
			text = "SELECT 'é𝄞 ünï' , \"ç\"\n" + text + "\n  -- çé𝄞"
		}
		c := LSPFormatCase{Text: text, TabSize: rapid.SampledFrom([]int{2, 4, 0, 8, -1}).Draw(rt, "tab"), Spaces: rapid.Bool().Draw(rt, "spaces")}
		hx.Case("lsp_format_preserves_tokens", len(cl) > 0, strings.Join(cl, ",")+fmt.Sprint(len(text)/16, c.TabSize, c.Spaces), cl...)
		hx.Sample("lsp_format_preserves_tokens", text)
		return c
	})
}

// genFixPreservesTokens is the case generator of fixCheck (shared by the rapid run and the native fuzz target).
func genFixPreservesTokens(rt *rapid.T) FixCase {
	text, cl := genHostile(rt)
	ids := []string{"all", "all", "L001", "L002", "L003", "L007", "L010"}
	rule := rapid.SampledFrom(ids).Draw(rt, "rule")
	hx.Case("fix_preserves_tokens", len(cl) > 0, rule+"|"+strings.Join(cl, ",")+fmt.Sprint(len(text)/16), append(cl, "rule_"+rule)...)
	hx.Sample("fix_preserves_tokens", text)
	return FixCase{Text: text, Rule: rule}
}

// FuzzFixPreservesTokens: coverage-guided search over the same generator (thorough tier).
func FuzzFixPreservesTokens(f *testing.F) { fixCheck.Fuzz(f, genFixPreservesTokens) }

// genFixExact is the case generator of exactCheck (shared by the rapid run and the native fuzz target).
func genFixExact(rt *rapid.T) ExactCase {
	text, cl := genHostile(rt)
	hx.Case("layout_rules_exact", len(cl) > 0, strings.Join(cl, ",")+fmt.Sprint(len(text)/16), cl...)
	hx.Sample("layout_rules_exact", text)
	return ExactCase{Text: text}
}

// FuzzFixExact: coverage-guided search over the same generator (thorough tier).
func FuzzFixExact(f *testing.F) { exactCheck.Fuzz(f, genFixExact) }
