package c07

import (
	"context"
	"errors"
	"fmt"
	"strings"
	"testing"
	"time"

	goerrors "github.com/ajitpratap0/GoSQLX/pkg/errors"
	"github.com/ajitpratap0/GoSQLX/pkg/gosqlx"
	"github.com/ajitpratap0/GoSQLX/pkg/sql/ast"
	"github.com/ajitpratap0/GoSQLX/pkg/sql/keywords"
	"github.com/ajitpratap0/GoSQLX/pkg/sql/parser"
	"github.com/ajitpratap0/GoSQLX/pkg/sql/tokenizer"
	"pgregory.net/rapid"
	"verif/gen/corrupt"
	"verif/gen/lexgen"
	"verif/gen/sqlgen"
	"verif/internal/astdump"
	"verif/internal/hx"
)

func TestMain(m *testing.M) { hx.Main(m, "C07") }

// outcome of one entry point on one input
type outcome struct {
	name    string
	ok      bool
	tree    string // "" when the entry point returns no tree
	hasTree bool
	code    string
	msg     string
}

func codeOf(err error) string {
	var se *goerrors.Error
	if errors.As(err, &se) {
		return string(se.Code)
	}
	return "<unstructured>"
}

func first(err error) string {
	s := err.Error()
	if i := strings.IndexByte(s, '\n'); i >= 0 {
		s = s[:i]
	}
	if len(s) > 160 {
		s = s[:160]
	}
	return s
}

func mk(name string, t *ast.AST, err error, withTree bool) outcome {
	o := outcome{name: name, hasTree: withTree}
	if err != nil {
		o.code, o.msg = codeOf(err), first(err)
		return o
	}
	o.ok = true
	if withTree {
		if t == nil {
			o.tree = "<nil tree without error>"
		} else {
			o.tree = astdump.Dump(t.Statements)
		}
	}
	return o
}

func lowLevel(sql string, mode string) (*ast.AST, error) {
	tkz := tokenizer.GetTokenizer()
	defer tokenizer.PutTokenizer(tkz)
	toks, err := tkz.Tokenize([]byte(sql))
	if err != nil {
		return nil, err
	}
	p := parser.NewParser()
	defer p.Release()
	switch mode {
	case "plain":
		return p.ParseFromModelTokens(toks)
	case "ctx":
		return p.ParseContextFromModelTokens(context.Background(), toks)
	default:
		return p.ParseFromModelTokensWithPositions(toks)
	}
}

func runAll(sql string) []outcome {
	var out []outcome
	t, err := gosqlx.Parse(sql)
	out = append(out, mk("gosqlx.Parse", t, err, true))
	t, err = gosqlx.ParseBytes([]byte(sql))
	out = append(out, mk("gosqlx.ParseBytes", t, err, true))
	t, err = gosqlx.ParseWithContext(context.Background(), sql)
	out = append(out, mk("gosqlx.ParseWithContext", t, err, true))
	t, err = gosqlx.ParseWithTimeout(sql, time.Hour)
	out = append(out, mk("gosqlx.ParseWithTimeout", t, err, true))
	out = append(out, mk("gosqlx.Validate", nil, gosqlx.Validate(sql), false))
	ts, err := gosqlx.ParseMultiple([]string{sql})
	if err == nil && len(ts) == 1 {
		out = append(out, mk("gosqlx.ParseMultiple[1]", ts[0], nil, true))
	} else {
		if err == nil {
			err = fmt.Errorf("ParseMultiple returned %d trees for 1 query", len(ts))
		}
		out = append(out, mk("gosqlx.ParseMultiple[1]", nil, err, true))
	}
	out = append(out, mk("gosqlx.ValidateMultiple[1]", nil, gosqlx.ValidateMultiple([]string{sql}), false))
	stmts, errs := gosqlx.ParseWithRecovery(sql)
	if len(errs) == 0 {
		out = append(out, outcome{name: "gosqlx.ParseWithRecovery", ok: true, hasTree: true, tree: astdump.Dump(stmts)})
	} else {
		out = append(out, outcome{name: "gosqlx.ParseWithRecovery", code: codeOf(errs[0]), msg: first(errs[0]), hasTree: true})
	}
	t, err = parser.ParseBytes([]byte(sql))
	out = append(out, mk("parser.ParseBytes", t, err, true))
	out = append(out, mk("parser.Validate", nil, parser.Validate(sql), false))
	out = append(out, mk("parser.ValidateBytes", nil, parser.ValidateBytes([]byte(sql)), false))
	t, _, err = parser.ParseBytesWithTokens([]byte(sql))
	out = append(out, mk("parser.ParseBytesWithTokens", t, err, true))
	t, err = parser.ParseWithDialect(sql, keywords.DialectPostgreSQL)
	out = append(out, mk("parser.ParseWithDialect(postgresql)", t, err, true))
	out = append(out, mk("parser.ValidateWithDialect(postgresql)", nil, parser.ValidateWithDialect(sql, keywords.DialectPostgreSQL), false))
	t, err = lowLevel(sql, "plain")
	out = append(out, mk("Parser.Parse", t, err, true))
	t, err = lowLevel(sql, "ctx")
	out = append(out, mk("Parser.ParseContext", t, err, true))
	t, err = lowLevel(sql, "pos")
	out = append(out, mk("Parser.ParseWithPositions", t, err, true))
	return out
}

type AgreeCase struct {
	SQL string `json:"sql"`
}

func oracleAgree(c AgreeCase) error {
	outs := runAll(c.SQL)
	ref := outs[0]
	for _, o := range outs[1:] {
		if o.ok != ref.ok {
			return fmt.Errorf("%s %s but %s %s (%s%s)", ref.name, verdict(ref), o.name, verdict(o), ref.msg, o.msg)
		}
		if ref.ok && o.hasTree && o.tree != ref.tree {
			return fmt.Errorf("%s and %s return different trees: %s", ref.name, o.name, astdump.Diff(o.tree, ref.tree))
		}
		if !ref.ok && o.code != ref.code {
			return fmt.Errorf("%s fails with %s (%s) but %s fails with %s (%s)", ref.name, ref.code, ref.msg, o.name, o.code, o.msg)
		}
	}
	return nil
}

func verdict(o outcome) string {
	if o.ok {
		return "accepts"
	}
	return "rejects"
}

var agreeCheck = hx.NewCheck("entry_points_agree", oracleAgree)

// genInput draws one input with at least one non-semicolon token.
func genInput(rt *rapid.T) (string, []string) {
	var cl []string
	f := lexgen.Features{StringStartsWithDoubledQuote: false, TrailingComment: true, Comments: true}
	switch rapid.IntRange(0, 9).Draw(rt, "inputkind") {
	case 0, 1: // one valid statement, canonical layout
		g := sqlgen.New(rt, sqlgen.FullFeatures())
		return sqlgen.SQL(sqlgen.Statement(g).Toks), []string{"valid"}
	case 2: // valid, hostile layout
		g := sqlgen.New(rt, sqlgen.FullFeatures())
		lx := sqlgen.Lexemes(sqlgen.Statement(g).Toks)
		return lexgen.Render(lx, lexgen.GenSeps(rt, f, lx, "l")).Src, []string{"valid", "hostile_layout"}
	case 3, 4, 5: // corrupted statement
		g := sqlgen.New(rt, sqlgen.FullFeatures())
		toks := sqlgen.Statement(g).Toks
		if len(toks) < 2 {
			toks = append(toks, sqlgen.Tok{Text: "x"})
		}
		r := corrupt.Apply(rt, toks)
		if len(r.Toks) == 0 {
			r.Toks = []sqlgen.Tok{{Text: ")"}}
		}
		return sqlgen.SQL(r.Toks), []string{"corrupted", "corrupt_" + r.Kind}
	case 6, 7: // script with stray semicolons
		n := rapid.IntRange(1, 4).Draw(rt, "nstmts")
		var b strings.Builder
		b.WriteString(rapid.SampledFrom([]string{"", ";", ";;", " ; "}).Draw(rt, "lead"))
		bad := false
		for i := 0; i < n; i++ {
			g := sqlgen.New(rt, sqlgen.FullFeatures())
			toks := sqlgen.Statement(g).Toks
			if rapid.IntRange(0, 4).Draw(rt, "badstmt") == 4 && len(toks) >= 2 {
				toks = corrupt.Apply(rt, toks).Toks
				bad = true
			}
			b.WriteString(sqlgen.SQL(toks))
			b.WriteString(rapid.SampledFrom([]string{";", ";", ";;", " ;\n", "\n;\n;"}).Draw(rt, "sep"))
		}
		cl = []string{"script", "stray_semicolons"}
		if bad {
			cl = append(cl, "script_with_bad_statement")
		}
		s := b.String()
		if strings.Trim(s, "; \n\t") == "" {
			s += "SELECT 1"
		}
		return s, cl
	default: // lexical soup
		lx := lexgen.GenLexemes(rt, f, 12)
		s := lexgen.Render(lx, lexgen.GenSeps(rt, f, lx, "s")).Src
		only := true
		for _, l := range lx {
			if l.Text != ";" {
				only = false
			}
		}
		if only {
			s += " x1"
		}
		if rapid.IntRange(0, 3).Draw(rt, "lexerr") == 0 {
			s += rapid.SampledFrom([]string{" 'unterminated", " \"q", " 1.", " ^", " $$x", " 'bad\\q'"}).Draw(rt, "lexbad")
			return s, []string{"soup", "lexical_error"}
		}
		return s, []string{"soup"}
	}
}

func TestEntryPointsAgree(t *testing.T) {
	hx.Rule("entry_points_agree", "inputs with >= 1 non-semicolon token (valid, hostile layout, single-token corruptions, multi-statement scripts with stray semicolons, lexical soup with and without lexical errors) through 17 parse/validate/recovery entry points; all accept or all reject, trees equal, error codes equal; non-trivial = multi-statement, rejected or stray semicolon; distinct = class + token shape")
	agreeCheck.Rapid(t, hx.N(20000, 200000), genEntryPointsAgree)
}

// ---------------------------------------------------------------- batch calls

type BatchCase struct {
	Queries []string `json:"queries"`
}

func oracleBatch(c BatchCase) error {
	firstBad := -1
	var want []string
	var badCode string
	for i, q := range c.Queries {
		t, err := gosqlx.Parse(q)
		if err != nil {
			if firstBad < 0 {
				firstBad, badCode = i, codeOf(err)
			}
			want = append(want, "")
			continue
		}
		want = append(want, astdump.Dump(t.Statements))
	}
	ts, err := gosqlx.ParseMultiple(c.Queries)
	verr := gosqlx.ValidateMultiple(c.Queries)
	if firstBad < 0 {
		if err != nil {
			return fmt.Errorf("every query parses alone but ParseMultiple fails: %s", first(err))
		}
		if verr != nil {
			return fmt.Errorf("every query parses alone but ValidateMultiple fails: %s", first(verr))
		}
		if len(ts) != len(c.Queries) {
			return fmt.Errorf("ParseMultiple returned %d trees for %d queries", len(ts), len(c.Queries))
		}
		for i := range ts {
			if d := astdump.Dump(ts[i].Statements); d != want[i] {
				return fmt.Errorf("ParseMultiple tree %d differs from Parse: %s", i, astdump.Diff(d, want[i]))
			}
		}
		return nil
	}
	for name, e := range map[string]error{"ParseMultiple": err, "ValidateMultiple": verr} {
		if e == nil {
			return fmt.Errorf("query %d fails alone but %s accepts the batch", firstBad, name)
		}
		if !strings.Contains(e.Error(), fmt.Sprintf("query %d:", firstBad)) {
			return fmt.Errorf("first failing query is %d but %s reports: %s", firstBad, name, first(e))
		}
		if codeOf(e) != badCode {
			return fmt.Errorf("query %d fails alone with %s but %s reports %s", firstBad, badCode, name, codeOf(e))
		}
	}
	return nil
}

var batchCheck = hx.NewCheck("batch_equals_individual", oracleBatch)

func TestBatchEqualsIndividual(t *testing.T) {
	hx.Rule("batch_equals_individual", "lists of 1-6 inputs (as entry_points_agree); ParseMultiple/ValidateMultiple must return exactly the individual results or fail naming the first failing index with the same error code; non-trivial = a failing query that is not the first, or >= 2 failing queries; distinct = verdict vector + sizes")
	batchCheck.Rapid(t, hx.N(12500, 100000), func(rt *rapid.T) BatchCase {
		n := rapid.IntRange(1, 6).Draw(rt, "nq")
		var qs []string
		var vec []string
		bad := 0
		firstBad := -1
		for i := 0; i < n; i++ {
			s, cl := genInput(rt)
			qs = append(qs, s)
			vec = append(vec, cl[0])
			if _, err := gosqlx.Parse(s); err != nil {
				bad++
				if firstBad < 0 {
					firstBad = i
				}
			}
		}
		hx.Case("batch_equals_individual", firstBad > 0 || bad >= 2, strings.Join(vec, ",")+fmt.Sprint(firstBad, bad))
		hx.Sample("batch_equals_individual", qs)
		return BatchCase{Queries: qs}
	})
}

// ---------------------------------------------------------------- low-level variants under the same options

type OptCase struct {
	SQL     string `json:"sql"`
	Strict  bool   `json:"strict"`
	Dialect string `json:"dialect"`
}

func lowLevelOpts(c OptCase, mode string) (*ast.AST, error) {
	tkz := tokenizer.GetTokenizer()
	defer tokenizer.PutTokenizer(tkz)
	toks, err := tkz.Tokenize([]byte(c.SQL))
	if err != nil {
		return nil, err
	}
	var opts []parser.ParserOption
	if c.Strict {
		opts = append(opts, parser.WithStrictMode())
	}
	if c.Dialect != "" {
		opts = append(opts, parser.WithDialect(c.Dialect))
	}
	p := parser.NewParser(opts...)
	defer p.Release()
	switch mode {
	case "plain":
		return p.ParseFromModelTokens(toks)
	case "ctx":
		return p.ParseContextFromModelTokens(context.Background(), toks)
	default:
		return p.ParseFromModelTokensWithPositions(toks)
	}
}

func oracleOpt(c OptCase) error {
	var outs []outcome
	for _, m := range []string{"plain", "ctx", "pos"} {
		t, err := lowLevelOpts(c, m)
		outs = append(outs, mk("Parser["+m+"]", t, err, true))
	}
	// the same parser's recovery entry point: errors exactly when the strict loops fail, and the same trees
	if rs, rerrs, ok := recoveryOpts(c); ok {
		if len(rerrs) == 0 {
			outs = append(outs, outcome{name: "Parser[recovery]", ok: true, hasTree: true, tree: astdump.Dump(rs)})
		} else {
			outs = append(outs, outcome{name: "Parser[recovery]", code: codeOf(rerrs[0]), msg: first(rerrs[0]), hasTree: true})
		}
	}
	ref := outs[0]
	for _, o := range outs[1:] {
		if o.ok != ref.ok {
			return fmt.Errorf("with strict=%v dialect=%q: %s %s but %s %s (%s%s)", c.Strict, c.Dialect, ref.name, verdict(ref), o.name, verdict(o), ref.msg, o.msg)
		}
		if ref.ok && o.tree != ref.tree {
			return fmt.Errorf("with strict=%v dialect=%q: %s and %s return different trees: %s", c.Strict, c.Dialect, ref.name, o.name, astdump.Diff(o.tree, ref.tree))
		}
		if !ref.ok && o.code != ref.code {
			return fmt.Errorf("with strict=%v dialect=%q: %s fails with %s but %s fails with %s", c.Strict, c.Dialect, ref.name, ref.code, o.name, o.code)
		}
	}
	return nil
}

var optCheck = hx.NewCheck("parser_variants_agree_under_options", oracleOpt)

func TestParserVariantsAgreeUnderOptions(t *testing.T) {
	hx.Rule("parser_variants_agree_under_options", "the three statement loops of the low-level parser (plain, context, position tracking) on one parser configuration (strict mode on/off, dialect) and one input; same verdict, tree and error code; non-trivial = strict mode with a stray semicolon, or a non-default dialect; distinct = options + input class + size")
	optCheck.Rapid(t, hx.N(12500, 100000), func(rt *rapid.T) OptCase {
		s, cl := genInput(rt)
		c := OptCase{SQL: s, Strict: rapid.Bool().Draw(rt, "strict"), Dialect: rapid.SampledFrom([]string{"", "postgresql", "mysql", "sqlserver", "sqlite", "oracle"}).Draw(rt, "dialect")}
		stray := strings.Contains(s, ";;") || strings.HasPrefix(strings.TrimSpace(s), ";")
		hx.Case("parser_variants_agree_under_options", (c.Strict && stray) || (c.Dialect != "" && c.Dialect != "postgresql"), fmt.Sprint(c.Strict, c.Dialect, cl, len(s)))
		hx.Sample("parser_variants_agree_under_options", c)
		return c
	})
}

// genEntryPointsAgree is the case generator of agreeCheck (shared by the rapid run and the native fuzz target).
func genEntryPointsAgree(rt *rapid.T) AgreeCase {
	s, cl := genInput(rt)
	nt := false
	for _, c := range cl {
		if c == "corrupted" || c == "script" || c == "soup" {
			nt = true
		}
	}
	hx.Case("entry_points_agree", nt, strings.Join(cl, ",")+fmt.Sprint(len(s)), cl...)
	hx.Sample("entry_points_agree", s)
	return AgreeCase{SQL: s}
}

// FuzzEntryPointsAgree: coverage-guided search over the same generator (thorough tier).
func FuzzEntryPointsAgree(f *testing.F) { agreeCheck.Fuzz(f, genEntryPointsAgree) }

// recoveryOpts runs the recovery entry point of a parser configured like lowLevelOpts's.
func recoveryOpts(c OptCase) ([]ast.Statement, []error, bool) {
	tkz := tokenizer.GetTokenizer()
	defer tokenizer.PutTokenizer(tkz)
	toks, err := tkz.Tokenize([]byte(c.SQL))
	if err != nil {
		return nil, nil, false
	}
	var opts []parser.ParserOption
	if c.Strict {
		opts = append(opts, parser.WithStrictMode())
	}
	if c.Dialect != "" {
		opts = append(opts, parser.WithDialect(c.Dialect))
	}
	p := parser.NewParser(opts...)
	defer p.Release()
	stmts, errs := p.ParseWithRecoveryFromModelTokens(toks)
	return stmts, errs, true
}
