package c14

import (
	"fmt"
	"sort"
	"strings"
	"testing"

	"github.com/ajitpratap0/GoSQLX/pkg/gosqlx"
	"github.com/ajitpratap0/GoSQLX/pkg/sql/ast"
	"github.com/ajitpratap0/GoSQLX/pkg/transform"
	"pgregory.net/rapid"
	"verif/gen/sqlgen"
	"verif/internal/hx"
)

// A transform built on traversal must not miss a nested query because of where it sits:
// transform.ReplaceTable(old, new) is documented to replace the table "everywhere it appears".
// After it, no table position and no column qualifier of the statement may still name old,
// wherever the query that named it was nested, and new must appear when old was in a table position.

type ReplaceCase struct {
	SQL string `json:"sql"`
	Old string `json:"old"`
}

const replacement = "zz_renamed"

func namesOf(tree *ast.AST) (tables, qualifiers []string) {
	for _, t := range gosqlx.ExtractTables(tree) {
		tables = append(tables, t)
	}
	for _, c := range gosqlx.ExtractColumnsQualified(tree) {
		if c.Table != "" {
			qualifiers = append(qualifiers, c.Table)
		}
	}
	sort.Strings(tables)
	sort.Strings(qualifiers)
	return
}

func has(list []string, name string) bool {
	for _, x := range list {
		if strings.EqualFold(x, name) {
			return true
		}
	}
	return false
}

func oracleReplace(c ReplaceCase) error {
	tree, err := gosqlx.Parse(c.SQL)
	if err != nil || len(tree.Statements) != 1 {
		return nil
	}
	switch tree.Statements[0].(type) {
	case *ast.SelectStatement, *ast.UpdateStatement, *ast.DeleteStatement:
	default:
		return nil // ReplaceTable supports these three kinds
	}
	tb, qb := namesOf(tree)
	if !has(tb, c.Old) && !has(qb, c.Old) {
		return nil
	}
	if err := transform.Apply(tree.Statements[0], transform.ReplaceTable(c.Old, replacement)); err != nil {
		return fmt.Errorf("ReplaceTable fails on a supported statement: %v", err)
	}
	ta, qa := namesOf(tree)
	if has(ta, c.Old) {
		return fmt.Errorf("after ReplaceTable(%q) a table position still names it (tables before %v, after %v)", c.Old, tb, ta)
	}
	if has(qa, c.Old) {
		return fmt.Errorf("after ReplaceTable(%q) a column qualifier still names it (qualifiers before %v, after %v)", c.Old, qb, qa)
	}
	if has(tb, c.Old) && !has(ta, replacement) {
		return fmt.Errorf("after ReplaceTable(%q) the new name appears in no table position (tables after %v)", c.Old, ta)
	}
	return nil
}

var replaceCheck = hx.NewCheck("transform_reaches_all", oracleReplace)

func genReplaceTable(rt *rapid.T) ReplaceCase {
	f := sqlgen.AllFeatures()
	f.NoWindowFrame = !hx.Allowed("c14.window_frame_children")
	g := sqlgen.New(rt, f)
	st := sqlgen.Statement(g)
	var names []string
	for n := range st.Names.Tables {
		if !strings.ContainsAny(n, ". \"") {
			names = append(names, n)
		}
	}
	sort.Strings(names)
	old := "t1"
	if len(names) > 0 {
		old = names[rapid.IntRange(0, len(names)-1).Draw(rt, "which_table")]
	}
	nested := st.Stats["scalar_subquery"]+st.Stats["in_subquery"]+st.Stats["exists"]+st.Stats["not_exists"]+st.Stats["derived_table"]+st.Stats["with"]+st.Stats["quantified"]+st.Stats["join_derived"]+st.Stats["set_operation"] > 0
	hx.Case("transform_reaches_all", nested, st.Kind+fmt.Sprint(len(st.Toks)/4), map[bool]string{true: "nested_query", false: "flat"}[nested], "kind_"+st.Kind)
	sql := sqlgen.SQL(st.Toks)
	hx.Sample("transform_reaches_all", map[string]string{"sql": sql, "old": old})
	return ReplaceCase{SQL: sql, Old: old}
}

func TestTransformReachesAll(t *testing.T) {
	hx.Rule("transform_reaches_all", "G-SQL SELECT / UPDATE / DELETE statements and one of the table names written in them; transform.ReplaceTable(old, new) applied to the parsed statement; afterwards (observed with ExtractTables / ExtractColumnsQualified, which C15 checks) no table position and no column qualifier may still name old, whatever the nesting of the query that named it, and new must be in a table position when old was; non-trivial = the statement has a nested query; distinct = kind + size")
	replaceCheck.Rapid(t, hx.N(20000, 200000), genReplaceTable)
}

// FuzzTransformReachesAll: coverage-guided search over the same generator (thorough tier).
func FuzzTransformReachesAll(f *testing.F) { replaceCheck.Fuzz(f, genReplaceTable) }
