package c14

import (
	"fmt"
	"reflect"
	"sort"
	"strings"
	"testing"

	"github.com/ajitpratap0/GoSQLX/pkg/gosqlx"
	"github.com/ajitpratap0/GoSQLX/pkg/sql/ast"
	"pgregory.net/rapid"
	"verif/gen/famgen"
	"verif/gen/sqlgen"
	"verif/internal/astdump"
	"verif/internal/hx"
	"verif/internal/reflectx"
	"verif/internal/registry"
)

func TestMain(m *testing.M) { hx.Main(m, "C14") }

func key(v reflect.Value) string {
	for v.Kind() == reflect.Ptr || v.Kind() == reflect.Interface {
		if v.IsNil() {
			return "<nil>"
		}
		v = v.Elem()
	}
	return v.Type().Name() + "|" + astdump.Dump(v.Interface())
}

// visited: multiset of nodes ast.Inspect hands to its callback.
func visited(root ast.Node) map[string]int {
	m := map[string]int{}
	ast.Inspect(root, func(n ast.Node) bool {
		if n == nil {
			return true
		}
		rv := reflect.ValueOf(n)
		if rv.Kind() == reflect.Ptr && rv.IsNil() {
			m["<typed nil "+rv.Type().String()+">"]++
			return false
		}
		if isZeroNode(rv) {
			return true
		}
		m[key(rv)]++
		return true
	})
	return m
}

// isZeroNode: a node struct held by value whose every field is zero (an unused ObjectName{}) says
// nothing about the statement; it is ignored on both sides of the comparison.
func isZeroNode(v reflect.Value) bool {
	for v.Kind() == reflect.Ptr || v.Kind() == reflect.Interface {
		if v.IsNil() {
			return false
		}
		v = v.Elem()
	}
	return v.Kind() == reflect.Struct && v.NumField() > 0 && v.IsZero()
}

func reachable(root interface{}) map[string]int {
	m := map[string]int{}
	// a derived table referenced from From and from the first join's Left is one node of the tree
	reflectx.Descend = reflectx.SharedDerivedTableOnce
	defer func() { reflectx.Descend = nil }()
	reflectx.Reachable(reflect.ValueOf(root), func(v reflect.Value) {
		if !isZeroNode(v) {
			m[key(v)]++
		}
	})
	return m
}

func diff(v, r map[string]int) (missing, extra []string) {
	for k, n := range r {
		if v[k] < n {
			missing = append(missing, fmt.Sprintf("%dx %s", n-v[k], clip(k)))
		}
	}
	for k, n := range v {
		if r[k] < n {
			extra = append(extra, fmt.Sprintf("%dx %s", n-r[k], clip(k)))
		}
	}
	sort.Strings(missing)
	sort.Strings(extra)
	return
}

func clip(s string) string {
	if len(s) > 220 {
		return s[:220] + "…"
	}
	return s
}

// ---------------------------------------------------------------- parsed trees

type TreeCase struct {
	SQL string `json:"sql"`
}

func oracleTree(c TreeCase) error {
	tree, err := gosqlx.Parse(c.SQL)
	if err != nil {
		return nil
	}
	v := visited(tree)
	r := reachable(tree)
	missing, extra := diff(v, r)
	if len(missing) > 0 {
		return fmt.Errorf("nodes reachable through the tree's fields but never visited by ast.Inspect: %s", strings.Join(missing[:min(3, len(missing))], " ; "))
	}
	if len(extra) > 0 {
		return fmt.Errorf("ast.Inspect visits nodes that are not part of the tree: %s", strings.Join(extra[:min(3, len(extra))], " ; "))
	}
	return nil
}

func min(a, b int) int {
	if a < b {
		return a
	}
	return b
}

var treeCheck = hx.NewCheck("inspect_reaches_all", oracleTree)

func features() sqlgen.Features {
	f := sqlgen.FullFeatures()
	f.NoWindowFrame = !hx.Allowed("c14.window_frame_children")
	return f
}

// sweep pairs that belong to one listed root cause share its switch
var sweepSwitch = map[string]string{
	"WindowFrame.Start": "c14.window_frame_children", "WindowFrame.End": "c14.window_frame_children", "WindowSpec.FrameClause": "c14.window_frame_children",
	"FunctionDesc.Name": "c14.trigger_name_nodes", "TriggerEvent.Columns": "c14.trigger_name_nodes", "TriggerExecBody.FuncDesc": "c14.trigger_name_nodes",
	"TriggerReferencing.TransitionRelationName": "c14.trigger_name_nodes",
}

// TestInspectReachesAllLongChains: trees that are deep without any textual nesting - a chain of
// several hundred operators, UNIONs, casts or subscripts is parsed into a left-deep tree - must be
// traversed to the very bottom.
func TestInspectReachesAllLongChains(t *testing.T) {
	if hx.Shard() != 0 {
		t.Skip("enumeration runs on shard 0 only")
	}
	var cases []string
	for _, c := range famgen.Compositions {
		cases = append(cases, c.Compose(famgen.DefaultUnit(c.Unit), 3000))
		cases = append(cases, c.Compose(strings.ReplaceAll(famgen.DefaultUnit(c.Unit), "a", "(SELECT x{i} FROM y)"), 9000))
	}
	for _, f := range famgen.Lexical {
		switch f.Name {
		case "cast_chain", "subscript_chain", "qualified_names", "many_literals", "distinct_functions", "distinct_tables_joined", "distinct_ctes", "distinct_aliases":
			cases = append(cases, f.Render(2000))
		}
	}
	for i, sql := range cases {
		c := TreeCase{SQL: sql}
		hx.Case("inspect_reaches_all", true, fmt.Sprint("long_chain_", i), "long_chain")
		treeCheck.One(t, c)
	}
}

func TestInspectReachesAll(t *testing.T) {
	hx.Rule("inspect_reaches_all", "trees parsed from G-SQL statements (incl. MERGE and DDL) and from chains of several hundred operators / UNIONs / casts / subscripts / joins / CTEs (left-deep trees without textual nesting); multiset of (type, content) of nodes ast.Inspect visits must equal the multiset of node-typed values reachable by reflection through every exported field; non-trivial = >= 3 distinct node types below statement level; distinct = node type set + size")
	treeCheck.Rapid(t, hx.N(100000, 1000000), genInspectReachesAll)
}

// ---------------------------------------------------------------- structural sweep over (node type, node-holding field)

type SweepCase struct {
	Type  string `json:"type"`
	Field string `json:"field"`
}

var markerName = "__verif_marker__"

func marker() *ast.Identifier { return &ast.Identifier{Name: markerName, Table: "m"} }

// plant puts a marker node into field f of a fresh value of type t; returns
// the root node or nil if the field cannot hold a marker.
func plant(t reflect.Type, fi int) (ast.Node, bool) {
	pv := reflect.New(t)
	f := pv.Elem().Field(fi)
	if !setMarker(f, 0) {
		return nil, false
	}
	n, ok := pv.Interface().(ast.Node)
	if !ok {
		if n2, ok2 := pv.Elem().Interface().(ast.Node); ok2 {
			return n2, true
		}
		return nil, false
	}
	return n, true
}

var identType = reflect.TypeOf(&ast.Identifier{})

// setMarker makes v hold a structure that contains the marker identifier.
func setMarker(v reflect.Value, depth int) bool {
	if depth > 4 || !v.CanSet() {
		return false
	}
	t := v.Type()
	switch t.Kind() {
	case reflect.Interface:
		if t.NumMethod() == 0 {
			return false // interface{} fields hold Go values (literal payloads), not nodes
		}
		if identType.Implements(t) {
			v.Set(reflect.ValueOf(marker()))
			return true
		}
		if t.Name() == "Statement" || t.Name() == "QueryExpression" {
			s := &ast.SelectStatement{Columns: []ast.Expression{marker()}}
			if reflect.TypeOf(s).Implements(t) {
				v.Set(reflect.ValueOf(s))
				return true
			}
		}
		return false
	case reflect.Ptr:
		if t == identType {
			v.Set(reflect.ValueOf(marker()))
			return true
		}
		if t.Elem().Kind() == reflect.Struct {
			nv := reflect.New(t.Elem())
			if fillFirst(nv.Elem(), depth+1) || leafMarker(nv.Elem()) {
				v.Set(nv)
				return true
			}
		}
		return false
	case reflect.Struct:
		return fillFirst(v, depth+1) || leafMarker(v)
	case reflect.Slice:
		e := reflect.New(t.Elem()).Elem()
		if setMarker(e, depth+1) {
			v.Set(reflect.Append(reflect.MakeSlice(t, 0, 1), e))
			return true
		}
		return false
	}
	return false
}

// fillFirst plants the marker in the first field of struct v that can take it.
// leafMarker marks a node type that holds no other node (a name node such as *Ident or
// ObjectName) by writing the marker into its first exported string field.
func leafMarker(v reflect.Value) bool {
	if !reflectx.IsNodeType(v.Type()) {
		return false
	}
	for i := 0; i < v.NumField(); i++ {
		if f := v.Field(i); v.Type().Field(i).PkgPath == "" && f.Kind() == reflect.String && f.CanSet() {
			f.SetString(markerName)
			return true
		}
	}
	return false
}

// ownsMarker: n itself (not a descendant) carries the marker in one of its string fields.
func ownsMarker(n ast.Node) bool {
	v := reflect.ValueOf(n)
	for v.Kind() == reflect.Ptr || v.Kind() == reflect.Interface {
		if v.IsNil() {
			return false
		}
		v = v.Elem()
	}
	if v.Kind() != reflect.Struct {
		return false
	}
	for i := 0; i < v.NumField(); i++ {
		if f := v.Field(i); f.Kind() == reflect.String && f.String() == markerName {
			return true
		}
	}
	return false
}

func fillFirst(v reflect.Value, depth int) bool {
	for i := 0; i < v.NumField(); i++ {
		if v.Type().Field(i).PkgPath != "" {
			continue
		}
		if setMarker(v.Field(i), depth) {
			return true
		}
	}
	return false
}

func oracleSweep(c SweepCase) error {
	for _, t := range registry.StructTypes {
		if t.Name() != c.Type {
			continue
		}
		f, ok := t.FieldByName(c.Field)
		if !ok {
			return nil
		}
		root, ok := plant(t, f.Index[0])
		if !ok {
			return nil
		}
		found := false
		ast.Inspect(root, func(n ast.Node) bool {
			if id, ok := n.(*ast.Identifier); ok && id != nil && id.Name == markerName {
				found = true
			}
			if n != root && ownsMarker(n) {
				found = true
			}
			rv := reflect.ValueOf(n)
			return n != nil && !(rv.Kind() == reflect.Ptr && rv.IsNil())
		})
		if !found {
			return fmt.Errorf("a node placed in %s.%s is never visited by ast.Inspect", c.Type, c.Field)
		}
		return nil
	}
	return nil
}

var sweepCheck = hx.NewCheck("children_cover_fields", oracleSweep)

func TestChildrenCoverFields(t *testing.T) {
	if hx.Shard() != 0 {
		t.Skip("enumeration runs on shard 0 only")
	}
	hx.Rule("children_cover_fields", "every (node type of package ast, exported field that can hold a node directly, via pointer, slice or nested struct) from the generated registry: a marker node planted in exactly that field of a fresh value must be visited by ast.Inspect; exhaustive over the registry")
	n, planted := 0, 0
	for _, ty := range registry.StructTypes {
		if !reflectx.IsNodeType(ty) {
			continue
		}
		for i := 0; i < ty.NumField(); i++ {
			if ty.Field(i).PkgPath != "" {
				continue
			}
			n++
			if _, ok := plant(ty, i); !ok {
				continue
			}
			planted++
			c := SweepCase{Type: ty.Name(), Field: ty.Field(i).Name}
			if sw, ok := sweepSwitch[c.Type+"."+c.Field]; ok && !hx.Allowed(sw) {
				continue
			}
			hx.Case("children_cover_fields", true, c.Type+"."+c.Field)
			hx.Sample("children_cover_fields", c)
			sweepCheck.One(t, c)
		}
	}
	hx.Exhaustive("children_cover_fields", true)
	t.Logf("fields examined %d, node-holding %d", n, planted)
}

// genInspectReachesAll is the case generator of treeCheck (shared by the rapid run and the native fuzz target).
func genInspectReachesAll(rt *rapid.T) TreeCase {
	g := sqlgen.New(rt, features())
	st := sqlgen.Statement(g)
	sql := sqlgen.SQL(st.Toks)
	types := map[string]bool{}
	reflectx.Reachable(reflect.ValueOf(st.Node), func(v reflect.Value) { types[v.Type().Name()] = true })
	var ts []string
	for k := range types {
		ts = append(ts, k)
	}
	sort.Strings(ts)
	hx.Case("inspect_reaches_all", len(ts) >= 4, strings.Join(ts, ",")+fmt.Sprint(len(st.Toks)/4))
	hx.Sample("inspect_reaches_all", sql)
	return TreeCase{SQL: sql}
}

// FuzzInspectReachesAll: coverage-guided search over the same generator (thorough tier).
func FuzzInspectReachesAll(f *testing.F) { treeCheck.Fuzz(f, genInspectReachesAll) }
