// Package hx is the shared runtime of every check package: evidence counters,
// known-finding switches, replay files and the rapid wrapper that ties them
// together.  One process = one property (VERIF_PROPERTY), one shard.
package hx

import (
	"encoding/json"
	"errors"
	"flag"
	"fmt"
	"hash/fnv"
	"io"
	"os"
	"os/exec"
	"path/filepath"
	"runtime/debug"
	"sort"
	"strconv"
	"strings"
	"sync"
	"testing"
	"time"

	"pgregory.net/rapid"
)

// ---------------------------------------------------------------- environment

func Tier() string {
	if v := os.Getenv("VERIF_TIER"); v == "thorough" {
		return "thorough"
	}
	return "quick"
}

func envInt(k string, d int) int {
	if v, err := strconv.Atoi(os.Getenv(k)); err == nil {
		return v
	}
	return d
}

func Shards() int { return max1(envInt("VERIF_SHARDS", 1)) }
func Shard() int  { return envInt("VERIF_SHARD", 0) }
func Seed() int   { return envInt("VERIF_SEED", 1) }

func max1(n int) int {
	if n < 1 {
		return 1
	}
	return n
}

// N returns the number of cases this shard should run for a sub-check whose
// total budget is q cases in the quick tier and th in the thorough tier.
func N(q, th int) int {
	n := q
	if Tier() == "thorough" {
		n = th
	}
	n = (n + Shards() - 1) / Shards()
	return max1(n)
}

// Pick returns q or th by tier without dividing by shards.
func Pick(q, th int) int {
	if Tier() == "thorough" {
		return th
	}
	return q
}

// ---------------------------------------------------------------- evidence

type violation struct {
	Check   string `json:"check"`
	Replay  string `json:"replay"`
	Message string `json:"message"`
}

type collector struct {
	mu          sync.Mutex
	Property    string                   `json:"property"`
	Evaluations int64                    `json:"evaluations"`
	Hashes      map[uint64]struct{}      `json:"-"`
	HashList    []uint64                 `json:"hashes"`
	Classes     map[string]int64         `json:"classes"`
	Samples     map[string][]interface{} `json:"samples"`
	Excluded    map[string]int64         `json:"excluded_known"`
	Known       []string                 `json:"known_active"`
	KnownLines  []string                 `json:"known_lines"`
	Violations  []violation              `json:"violations"`
	Requested   map[string]int           `json:"requested"`
	Achieved    map[string]int           `json:"achieved"`
	Exhaustive  map[string]bool          `json:"exhaustive"`
	Notes       map[string]string        `json:"notes"`
	Rules       map[string]string        `json:"rules"`
	sampleSeen  map[string]int64
}

var col = &collector{
	Hashes: map[uint64]struct{}{}, Classes: map[string]int64{}, Samples: map[string][]interface{}{},
	Excluded: map[string]int64{}, Requested: map[string]int{}, Achieved: map[string]int{},
	Exhaustive: map[string]bool{}, Notes: map[string]string{}, Rules: map[string]string{},
	sampleSeen: map[string]int64{},
}

const maxHashes = 3_000_000
const samplesPerCheck = 6

func H(parts ...string) uint64 {
	h := fnv.New64a()
	for _, p := range parts {
		h.Write([]byte(p))
		h.Write([]byte{0})
	}
	return h.Sum64()
}

// Case records one evaluated case. key identifies the case up to the
// distinctness rule of the check; it is only counted when nontrivial is true.
func Case(check string, nontrivial bool, key string, classes ...string) {
	col.mu.Lock()
	defer col.mu.Unlock()
	col.Evaluations++
	col.Classes[check+":cases"]++
	if nontrivial {
		col.Classes[check+":nontrivial"]++
		if len(col.Hashes) < maxHashes {
			col.Hashes[H(check, key)] = struct{}{}
		}
	}
	for _, c := range classes {
		col.Classes[check+":"+c]++
	}
}

// Class bumps a class counter without counting a case.
func Class(check, class string) {
	col.mu.Lock()
	col.Classes[check+":"+class]++
	col.mu.Unlock()
}

// Sample keeps a few actual cases per check (the 1st, 2nd, 4th, 8th ... seen,
// so samples come from the whole run and the choice is deterministic).
func Sample(check string, v interface{}) {
	col.mu.Lock()
	defer col.mu.Unlock()
	col.sampleSeen[check]++
	n := col.sampleSeen[check]
	if n&(n-1) != 0 { // not a power of two
		return
	}
	s := col.Samples[check]
	if len(s) >= samplesPerCheck {
		s = s[1:]
	}
	col.Samples[check] = append(s, v)
}

func Excluded(finding string) {
	col.mu.Lock()
	col.Excluded[finding]++
	col.mu.Unlock()
}

func Exhaustive(check string, v bool) { col.mu.Lock(); col.Exhaustive[check] = v; col.mu.Unlock() }
func Note(k, v string)                { col.mu.Lock(); col.Notes[k] = v; col.mu.Unlock() }
func Rule(check, v string)            { col.mu.Lock(); col.Rules[check] = v; col.mu.Unlock() }

func flush() {
	col.mu.Lock()
	defer col.mu.Unlock()
	out := os.Getenv("VERIF_EV_OUT")
	if out == "" {
		return
	}
	col.HashList = col.HashList[:0]
	for h := range col.Hashes {
		col.HashList = append(col.HashList, h)
	}
	sort.Slice(col.HashList, func(i, j int) bool { return col.HashList[i] < col.HashList[j] })
	b, err := json.Marshal(col)
	if err != nil {
		fmt.Fprintln(os.Stderr, "hx: cannot marshal evidence:", err)
		return
	}
	tmp := out + ".tmp"
	if err := os.WriteFile(tmp, b, 0o644); err == nil {
		os.Rename(tmp, out)
	}
}

// ---------------------------------------------------------------- checks

type checkI interface {
	name() string
	replay(raw json.RawMessage) error
}

var registry = map[string]checkI{}

// Check binds a name to an oracle over a JSON-serialisable case type.
type Check[C any] struct {
	Name   string
	Oracle func(c C) error
}

func NewCheck[C any](name string, oracle func(c C) error) *Check[C] {
	c := &Check[C]{Name: name, Oracle: oracle}
	if _, dup := registry[name]; dup {
		panic("hx: duplicate check " + name)
	}
	registry[name] = c
	return c
}

func (c *Check[C]) name() string { return c.Name }

func (c *Check[C]) replay(raw json.RawMessage) error {
	var v C
	if err := json.Unmarshal(raw, &v); err != nil {
		return fmt.Errorf("hx: bad replay case for %s: %v", c.Name, err)
	}
	return c.Eval(v)
}

// Eval runs the oracle, turning a panic into an error (the stack is part of
// the message so a crashing case is diagnosable from the replay file).
func (c *Check[C]) Eval(v C) (err error) {
	if journalPath != "" {
		if raw, jerr := json.Marshal(v); jerr == nil {
			b, _ := json.Marshal(replayFile{Property: col.Property, Check: c.Name, Seed: Seed(), Case: raw})
			os.WriteFile(journalPath, b, 0o644)
		}
	}
	defer func() {
		if r := recover(); r != nil {
			err = fmt.Errorf("panic: %v\n%s", r, trimStack(debug.Stack()))
		}
	}()
	return c.Oracle(v)
}

func trimStack(b []byte) string {
	s := string(b)
	lines := strings.Split(s, "\n")
	if len(lines) > 40 {
		lines = lines[:40]
	}
	return strings.Join(lines, "\n")
}

type replayFile struct {
	Property string          `json:"property"`
	Check    string          `json:"check"`
	Message  string          `json:"message"`
	Seed     int             `json:"seed"`
	Case     json.RawMessage `json:"case"`
}

// Fail records a violation for case v (overwriting the replay file of this
// check+shard, so after rapid's shrinking the file holds the minimal case).
func (c *Check[C]) Fail(v C, err error) string {
	dir := os.Getenv("VERIF_REPLAY_DIR")
	if dir == "" {
		dir = filepath.Join(os.TempDir(), "verif-replays")
	}
	os.MkdirAll(dir, 0o755)
	raw, _ := json.Marshal(v)
	rf := replayFile{Property: col.Property, Check: c.Name, Message: err.Error(), Seed: Seed(), Case: raw}
	b, _ := json.MarshalIndent(rf, "", " ")
	path := filepath.Join(dir, fmt.Sprintf("%s-seed%d-shard%d.json", c.Name, Seed(), Shard()))
	os.WriteFile(path, b, 0o644)
	col.mu.Lock()
	found := false
	for i := range col.Violations {
		if col.Violations[i].Check == c.Name {
			col.Violations[i].Message = err.Error()
			col.Violations[i].Replay = path
			found = true
		}
	}
	if !found {
		col.Violations = append(col.Violations, violation{Check: c.Name, Replay: path, Message: err.Error()})
	}
	col.mu.Unlock()
	return path
}

// Abort records a violation that cannot be unwound (a call that does not
// return), writes the evidence and ends the process with the violation exit code.
func (c *Check[C]) Abort(v C, err error) {
	p := c.Fail(v, err)
	fmt.Printf("ABORT: %s violated (replay %s): %v\n", c.Name, p, err)
	flush()
	os.Exit(1)
}

// WithDeadline runs f and reports whether it returned within d.  When it does
// not, the goroutine is left behind (it cannot be stopped): callers must Abort.
func WithDeadline(d time.Duration, f func()) bool {
	done := make(chan struct{})
	go func() {
		defer close(done)
		f()
	}()
	select {
	case <-done:
		return true
	case <-time.After(d):
		return false
	}
}

// Rapid runs gen+oracle under rapid for n cases.
func (c *Check[C]) Rapid(t *testing.T, n int, gen func(t *rapid.T) C) {
	t.Helper()
	flag.Set("rapid.checks", strconv.Itoa(n))
	col.mu.Lock()
	col.Requested[c.Name] += n
	col.mu.Unlock()
	done := 0
	rapid.Check(t, func(rt *rapid.T) {
		v := gen(rt)
		if err := c.Eval(v); err != nil {
			p := c.Fail(v, err)
			rt.Fatalf("%s violated (replay %s): %v", c.Name, p, err)
		}
		done++
	})
	col.mu.Lock()
	col.Achieved[c.Name] += done
	col.mu.Unlock()
}

// NativeFuzz reports whether this process is part of a native fuzzing run (coordinator or worker).
func NativeFuzz() bool { return os.Getenv("VERIF_NATIVE_FUZZ") != "" }

// Fuzz registers the check as a coverage-guided native fuzz target: the fuzz engine mutates the
// byte stream the rapid generator draws from (rapid.MakeFuzz), so generation stays structured while
// coverage feedback steers it. A failing case is written as a replay file by the worker that found
// it. Outside a native fuzzing run the target is skipped (the quick tier stays seed-deterministic).
func (c *Check[C]) Fuzz(f *testing.F, gen func(t *rapid.T) C) {
	if !NativeFuzz() {
		f.Skip("native fuzzing runs in the thorough tier only")
	}
	// one byte per decoded-and-evaluated case, appended to a tally file in the run directory: the
	// engine's exec count also includes byte strings too short to decode into a case
	tally, _ := os.OpenFile("evaluated.tally", os.O_APPEND|os.O_CREATE|os.O_WRONLY, 0o644)
	f.Fuzz(rapid.MakeFuzz(func(rt *rapid.T) {
		v := gen(rt)
		if tally != nil {
			tally.Write([]byte{'.'})
		}
		if err := c.Eval(v); err != nil {
			p := c.Fail(v, err)
			rt.Fatalf("%s violated (replay %s): %v", c.Name, p, err)
		}
	}))
}

// Survey (development aid, VERIF_SURVEY=1): run n cases without failing and
// print failure buckets with the smallest example of each.
func (c *Check[C]) Survey(t *testing.T, n int, gen func(t *rapid.T) C, size func(C) int, bucket func(error) string) {
	flag.Set("rapid.checks", strconv.Itoa(n))
	type ex struct {
		n    int
		size int
		c    C
		msg  string
	}
	buckets := map[string]*ex{}
	rapid.Check(t, func(rt *rapid.T) {
		v := gen(rt)
		if err := c.Eval(v); err != nil {
			k := bucket(err)
			e := buckets[k]
			if e == nil {
				e = &ex{size: 1 << 30}
				buckets[k] = e
			}
			e.n++
			if sz := size(v); sz < e.size {
				e.size, e.c, e.msg = sz, v, err.Error()
			}
		}
	})
	keys := make([]string, 0, len(buckets))
	for k := range buckets {
		keys = append(keys, k)
	}
	sort.Slice(keys, func(i, j int) bool { return buckets[keys[i]].n > buckets[keys[j]].n })
	for _, k := range keys {
		e := buckets[k]
		raw, _ := json.Marshal(e.c)
		fmt.Printf("SURVEY %s bucket=%q n=%d\n   case=%s\n   msg=%s\n", c.Name, k, e.n, raw, strings.ReplaceAll(e.msg, "\n", "\n      "))
	}
}

func Surveying() bool { return os.Getenv("VERIF_SURVEY") != "" }

// One evaluates a single enumerated case (for exhaustive sub-checks).
func (c *Check[C]) One(t *testing.T, v C) bool {
	t.Helper()
	if err := c.Eval(v); err != nil {
		p := c.Fail(v, err)
		t.Errorf("%s violated (replay %s): %v", c.Name, p, err)
		return false
	}
	return true
}

// ---------------------------------------------------------------- known findings

type Finding struct {
	ID       string          `json:"id"`
	Property string          `json:"property"`
	Check    string          `json:"check"`
	What     string          `json:"what"`
	Switch   string          `json:"switch"`
	Case     json.RawMessage `json:"case"`
	Status   string          `json:"status"` // "open" or "fixed"
	Commit   string          `json:"commit,omitempty"`
}

type findingsFile struct {
	Findings []Finding `json:"findings"`
}

var (
	switchOff = map[string]bool{}
	allKnown  []Finding
)

// Allowed reports whether the generator may use a feature.  A feature is off
// only while a listed known finding that names it still reproduces.
func Allowed(sw string) bool {
	if switchOff[sw] {
		Excluded(sw)
		return false
	}
	return true
}

// Off is Allowed without counting (for oracles that need to know).
func Off(sw string) bool { return switchOff[sw] }

func loadKnown(property string) {
	path := os.Getenv("VERIF_KNOWN")
	if path == "" {
		path = "/verif/KNOWN_FINDINGS.json"
	}
	b, err := os.ReadFile(path)
	if err != nil {
		return
	}
	var ff findingsFile
	if err := json.Unmarshal(b, &ff); err != nil {
		fmt.Fprintln(os.Stderr, "hx: bad known findings file:", err)
		os.Exit(3)
	}
	for _, f := range ff.Findings {
		if f.Property == property {
			allKnown = append(allKnown, f)
		}
	}
}

// replayKnown re-runs every listed finding of this property.  Open findings
// that still violate print KNOWN-FINDING and switch their feature off; fixed
// findings are regression cases and must pass.
func replayKnown() (regressions int) {
	for _, f := range allKnown {
		ck, ok := registry[f.Check]
		if !ok {
			fmt.Fprintf(os.Stderr, "hx: finding %s names unknown check %s\n", f.ID, f.Check)
			continue
		}
		var err error
		if contained && !Leaf() {
			err = ChildEval(f.Check, f.Case, 10*time.Minute)
		} else {
			err = ck.replay(f.Case)
		}
		switch {
		case f.Status == "fixed":
			Class("replay", "fixed_regression_cases")
			if err != nil {
				// the defect is back: an ordinary violation
				dir := os.Getenv("VERIF_REPLAY_DIR")
				os.MkdirAll(dir, 0o755)
				path := filepath.Join(dir, "regression-"+f.ID+".json")
				rf := replayFile{Property: f.Property, Check: f.Check, Message: err.Error(), Case: f.Case}
				b, _ := json.MarshalIndent(rf, "", " ")
				os.WriteFile(path, b, 0o644)
				col.Violations = append(col.Violations, violation{Check: f.Check, Replay: path, Message: "fixed finding " + f.ID + " is back: " + err.Error()})
				regressions++
			}
		case err != nil:
			line := fmt.Sprintf("KNOWN-FINDING: property=%s %s: %s", f.Property, f.ID, f.What)
			fmt.Println(line)
			col.KnownLines = append(col.KnownLines, line)
			col.Known = append(col.Known, f.ID)
			if f.Switch != "" {
				switchOff[f.Switch] = true
			}
		default:
			// listed as open but no longer reproduces: nothing is suppressed
			Class("replay", "open_finding_no_longer_reproduces")
			col.Notes["stale:"+f.ID] = "listed open finding no longer reproduces; its class is searched normally"
		}
	}
	return
}

var makers = map[string]func(arg string) (interface{}, error){}

// RegisterMaker lets `./check --mkcase <Cxx> <check> <arg>` build a replay case
// from a short argument (e.g. an SQL text) on the current tree.
func RegisterMaker(check string, f func(arg string) (interface{}, error)) { makers[check] = f }

// Main is called from each check package's TestMain.
func Main(m *testing.M, property string) {
	col.Property = property
	if NativeFuzz() {
		// fuzz coordinator and workers: known findings still switch their features off, but
		// nothing is replayed and no evidence is written (the driver records the campaign)
		loadKnown(property)
		for _, f := range allKnown {
			if f.Status != "fixed" && f.Switch != "" {
				switchOff[f.Switch] = true
			}
		}
		os.Exit(m.Run())
	}
	flag.Parse()
	flag.Set("rapid.nofailfile", "true")
	seed := uint64(Seed())*1_000_003 + uint64(Shard())*7919 + 1
	flag.Set("rapid.seed", strconv.FormatUint(seed, 10))
	loadKnown(property)
	if f := os.Getenv("VERIF_REPLAY_FILE"); f != "" {
		os.Exit(runReplayFile(f))
	}
	if ck := os.Getenv("VERIF_MKCASE_CHECK"); ck != "" {
		mk, ok := makers[ck]
		if !ok {
			fmt.Fprintln(os.Stderr, "no case maker for", ck)
			os.Exit(3)
		}
		v, err := mk(os.Getenv("VERIF_MKCASE_ARG"))
		if err != nil {
			fmt.Fprintln(os.Stderr, err)
			os.Exit(3)
		}
		raw, _ := json.Marshal(v)
		rf := replayFile{Property: property, Check: ck, Message: "made by --mkcase", Case: raw}
		b, _ := json.MarshalIndent(rf, "", " ")
		os.WriteFile(os.Getenv("VERIF_MKCASE_OUT"), b, 0o644)
		os.Exit(0)
	}
	reg := replayKnown()
	code := m.Run()
	if reg > 0 && code == 0 {
		code = 1
	}
	flush()
	os.Exit(code)
}

func runReplayFile(path string) int {
	b, err := os.ReadFile(path)
	if err != nil {
		fmt.Fprintln(os.Stderr, err)
		return 3
	}
	var rf replayFile
	if err := json.Unmarshal(b, &rf); err != nil {
		fmt.Fprintln(os.Stderr, err)
		return 3
	}
	ck, ok := registry[rf.Check]
	if !ok {
		fmt.Fprintf(os.Stderr, "unknown check %q\n", rf.Check)
		return 3
	}
	if contained && !Leaf() {
		if err := ChildEval(rf.Check, rf.Case, 10*time.Minute); err != nil {
			fmt.Printf("REPLAY-FAIL check=%s: %v\n", rf.Check, err)
			return 1
		}
		fmt.Printf("REPLAY-PASS check=%s\n", rf.Check)
		return 0
	}
	if err := ck.replay(rf.Case); err != nil {
		fmt.Printf("REPLAY-FAIL check=%s: %v\n", rf.Check, err)
		return 1
	}
	fmt.Printf("REPLAY-PASS check=%s\n", rf.Check)
	return 0
}

// ---------------------------------------------------------------- containment
//
// A runtime fatal error (stack overflow, concurrent map write, out of memory)
// cannot be recovered, and a call that never returns cannot be stopped. Checks
// whose cases can do either run them in a child process: the test binary
// re-executes itself on a one-case replay file and the parent reads the verdict
// from the exit status.

var (
	contained   bool
	journalPath string
)

// Inner reports whether this process runs under the MainContained wrapper.
func Inner() bool { return os.Getenv("VERIF_INNER") != "" }

// Leaf reports whether this process is a one-case containment child: oracles
// that contain risky cases must evaluate them in-process here.
func Leaf() bool { return os.Getenv("VERIF_LEAF") != "" }

// ChildEval evaluates one case of a registered check in a fresh child process.
// A non-nil error means the oracle failed there, or the child died, or it did
// not finish within budget.
func ChildEval(check string, raw json.RawMessage, budget time.Duration) error {
	dir := os.Getenv("VERIF_WORK")
	if dir == "" {
		dir = os.TempDir()
	}
	f, err := os.CreateTemp(dir, "child-case-*.json")
	if err != nil {
		return fmt.Errorf("HARNESS: %v", err)
	}
	defer os.Remove(f.Name())
	b, _ := json.Marshal(replayFile{Property: col.Property, Check: check, Seed: Seed(), Case: raw})
	f.Write(b)
	f.Close()
	cmd := exec.Command(os.Args[0])
	cmd.Env = append(os.Environ(), "VERIF_REPLAY_FILE="+f.Name(), "VERIF_INNER=1", "VERIF_LEAF=1", "VERIF_EV_OUT=", "VERIF_JOURNAL=")
	var out tailBuffer
	cmd.Stdout, cmd.Stderr = &out, &out
	if err := cmd.Start(); err != nil {
		return fmt.Errorf("HARNESS: cannot start child: %v", err)
	}
	done := make(chan error, 1)
	go func() { done <- cmd.Wait() }()
	select {
	case err = <-done:
	case <-time.After(budget):
		cmd.Process.Kill()
		<-done
		return fmt.Errorf("the call did not return within %v (child process killed)", budget)
	}
	if err == nil {
		return nil
	}
	text := out.String()
	if ee, ok := err.(*exec.ExitError); ok && ee.ExitCode() == 1 {
		if i := strings.Index(text, "REPLAY-FAIL"); i >= 0 {
			msg := text[i:]
			if j := strings.Index(msg, ": "); j >= 0 {
				msg = msg[j+2:]
			}
			return errors.New(strings.TrimSpace(msg))
		}
	}
	return fmt.Errorf("the process running the call died (%v): %s", err, fatalSummary(text))
}

// Contained evaluates v in a child process.
func (c *Check[C]) Contained(v C, budget time.Duration) error {
	raw, err := json.Marshal(v)
	if err != nil {
		return fmt.Errorf("HARNESS: %v", err)
	}
	return ChildEval(c.Name, raw, budget)
}

type tailBuffer struct {
	mu  sync.Mutex
	buf []byte
}

func (t *tailBuffer) Write(p []byte) (int, error) {
	t.mu.Lock()
	defer t.mu.Unlock()
	t.buf = append(t.buf, p...)
	if len(t.buf) > 1<<20 {
		t.buf = append(t.buf[:32<<10:32<<10], t.buf[len(t.buf)-(256<<10):]...)
	}
	return len(p), nil
}
func (t *tailBuffer) String() string { t.mu.Lock(); defer t.mu.Unlock(); return string(t.buf) }

// fatalSummary extracts the reason line and the first frames of a Go crash dump.
func fatalSummary(text string) string {
	lines := strings.Split(text, "\n")
	for i, l := range lines {
		if strings.HasPrefix(l, "fatal error:") || strings.HasPrefix(l, "panic:") || strings.HasPrefix(l, "runtime: goroutine stack exceeds") || strings.HasPrefix(l, "WARNING: DATA RACE") {
			end := i + 14
			if strings.HasPrefix(l, "WARNING: DATA RACE") {
				end = i + 34
			}
			if end > len(lines) {
				end = len(lines)
			}
			var keep []string
			for _, k := range lines[i:end] {
				if len(k) > 200 {
					k = k[:200] + "…"
				}
				keep = append(keep, k)
			}
			return strings.Join(keep, "\n")
		}
	}
	if len(text) > 600 {
		text = text[len(text)-600:]
	}
	return text
}

// MainContained is Main for properties whose cases may kill the process: the
// whole run happens in a child with a journal of the case being evaluated; if
// the child dies, the journaled case is re-run alone in a fresh child and, when
// it fails again, reported as the violation.
func MainContained(m *testing.M, property string) {
	contained = true
	if Inner() || os.Getenv("VERIF_REPLAY_FILE") != "" || os.Getenv("VERIF_MKCASE_CHECK") != "" {
		journalPath = os.Getenv("VERIF_JOURNAL")
		Main(m, property)
		return
	}
	col.Property = property
	dir := os.Getenv("VERIF_WORK")
	if dir == "" {
		dir = os.TempDir()
	}
	journal := filepath.Join(dir, fmt.Sprintf("journal-%s-%d-%d.json", property, Seed(), Shard()))
	os.Remove(journal)
	cmd := exec.Command(os.Args[0], os.Args[1:]...)
	cmd.Env = append(os.Environ(), "VERIF_INNER=1", "VERIF_JOURNAL="+journal)
	var out tailBuffer
	cmd.Stdout, cmd.Stderr = io.MultiWriter(os.Stdout, &out), io.MultiWriter(os.Stderr, &out)
	err := cmd.Run()
	code := 0
	if err != nil {
		code = -1
		if ee, ok := err.(*exec.ExitError); ok {
			code = ee.ExitCode()
		}
	}
	defer os.Remove(journal)
	if code == 0 || code == 1 {
		os.Exit(code)
	}
	b, rerr := os.ReadFile(journal)
	var rf replayFile
	if rerr != nil || json.Unmarshal(b, &rf) != nil || rf.Check == "" {
		fmt.Printf("INCONCLUSIVE: the check process died (%v) outside any case\n", err)
		os.Exit(2)
	}
	cerr := ChildEval(rf.Check, rf.Case, 10*time.Minute)
	if cerr == nil {
		fmt.Printf("INCONCLUSIVE: the check process died (%v) during a case that passes when run alone: %s\n", err, fatalSummary(out.String()))
		os.Exit(2)
	}
	path := failRaw(rf.Check, rf.Case, cerr)
	fmt.Printf("ABORT: %s violated (replay %s): %v\n", rf.Check, path, cerr)
	flush()
	os.Exit(1)
}

func failRaw(check string, raw json.RawMessage, err error) string {
	dir := os.Getenv("VERIF_REPLAY_DIR")
	if dir == "" {
		dir = filepath.Join(os.TempDir(), "verif-replays")
	}
	os.MkdirAll(dir, 0o755)
	rf := replayFile{Property: col.Property, Check: check, Message: err.Error(), Seed: Seed(), Case: raw}
	b, _ := json.MarshalIndent(rf, "", " ")
	path := filepath.Join(dir, fmt.Sprintf("%s-seed%d-shard%d.json", check, Seed(), Shard()))
	os.WriteFile(path, b, 0o644)
	col.mu.Lock()
	col.Violations = append(col.Violations, violation{Check: check, Replay: path, Message: err.Error()})
	col.mu.Unlock()
	return path
}
