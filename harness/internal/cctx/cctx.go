// Package cctx provides a counting context: it becomes done at the k-th time
// the library polls it (the library only ever calls Err()), which turns "every
// moment at which the context can fire" into an enumerable set.
package cctx

import (
	"context"
	"sync"
	"time"
)

type Ctx struct {
	mu     sync.Mutex
	fireAt int // Err() call index (0-based) from which the context is done; <0 = never
	err    error
	Polls  int // number of Err() calls made so far
	After  int // number of Err() calls made after the first firing one
	done   chan struct{}
	closed bool
}

// New returns a context that reports err from its fireAt-th Err() call on.
func New(fireAt int, err error) *Ctx {
	return &Ctx{fireAt: fireAt, err: err, done: make(chan struct{})}
}

func (c *Ctx) Deadline() (time.Time, bool)       { return time.Time{}, false }
func (c *Ctx) Value(key interface{}) interface{} { return nil }

func (c *Ctx) Done() <-chan struct{} {
	c.mu.Lock()
	defer c.mu.Unlock()
	if c.fireAt == 0 && !c.closed {
		c.closed = true
		close(c.done)
	}
	return c.done
}

func (c *Ctx) Err() error {
	c.mu.Lock()
	defer c.mu.Unlock()
	i := c.Polls
	c.Polls++
	if c.fireAt >= 0 && i >= c.fireAt {
		if i > c.fireAt {
			c.After++
		}
		if !c.closed {
			c.closed = true
			close(c.done)
		}
		return c.err
	}
	return nil
}

var _ context.Context = (*Ctx)(nil)
