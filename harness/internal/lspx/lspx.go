// Package lspx drives a real lsp.Server over in-memory pipes: it frames and
// sends messages, reads and validates every outgoing frame, and reports when
// the server's Run loop dies.
package lspx

import (
	"bufio"
	"encoding/json"
	"fmt"
	"io"
	"strconv"
	"strings"
	"sync"
	"time"

	"github.com/ajitpratap0/GoSQLX/pkg/lsp"
)

// Frame is one message read from the server.
type Frame struct {
	Raw    []byte
	ID     interface{} // nil for notifications
	HasID  bool
	Method string
	Result json.RawMessage
	Error  json.RawMessage
	Params json.RawMessage
}

type Client struct {
	Server     *lsp.Server
	in         *io.PipeWriter
	mu         sync.Mutex
	Frames     []Frame
	FrameErr   error  // framing violation seen on the output stream
	Died       string // non-empty when Run panicked or returned
	done       chan struct{}
	readerDone chan struct{}
	notify     chan struct{}
}

// Start launches a server.
func Start() *Client {
	inR, inW := io.Pipe()
	outR, outW := io.Pipe()
	c := &Client{in: inW, done: make(chan struct{}), readerDone: make(chan struct{}), notify: make(chan struct{}, 1024)}
	c.Server = lsp.NewServer(inR, outW, nil)
	go func() {
		defer close(c.done)
		defer outW.Close()
		defer func() {
			if r := recover(); r != nil {
				c.mu.Lock()
				c.Died = fmt.Sprintf("panic: %v", r)
				c.mu.Unlock()
			}
		}()
		err := c.Server.Run()
		c.mu.Lock()
		if c.Died == "" {
			c.Died = fmt.Sprintf("Run returned: %v", err)
		}
		c.mu.Unlock()
	}()
	go c.readLoop(outR)
	return c
}

func (c *Client) readLoop(r io.Reader) {
	defer close(c.readerDone)
	br := bufio.NewReader(r)
	for {
		// headers
		length := -1
		sawAny := false
		for {
			line, err := br.ReadString('\n')
			if err != nil {
				if sawAny || (err != io.EOF && err != io.ErrClosedPipe) {
					c.setFrameErr(fmt.Errorf("output stream ends inside a header: %v", err))
				}
				return
			}
			sawAny = true
			if !strings.HasSuffix(line, "\r\n") {
				c.setFrameErr(fmt.Errorf("header line %q does not end in CRLF", line))
				return
			}
			line = strings.TrimSuffix(line, "\r\n")
			if line == "" {
				break
			}
			if strings.HasPrefix(line, "Content-Length:") {
				n, err := strconv.Atoi(strings.TrimSpace(strings.TrimPrefix(line, "Content-Length:")))
				if err != nil {
					c.setFrameErr(fmt.Errorf("bad Content-Length header %q", line))
					return
				}
				length = n
			}
		}
		if length < 0 {
			c.setFrameErr(fmt.Errorf("frame without Content-Length"))
			return
		}
		body := make([]byte, length)
		if _, err := io.ReadFull(br, body); err != nil {
			c.setFrameErr(fmt.Errorf("Content-Length %d but the stream ended early: %v", length, err))
			return
		}
		var m struct {
			ID     *json.RawMessage `json:"id"`
			Method string           `json:"method"`
			Result json.RawMessage  `json:"result"`
			Error  json.RawMessage  `json:"error"`
			Params json.RawMessage  `json:"params"`
		}
		if err := json.Unmarshal(body, &m); err != nil {
			c.setFrameErr(fmt.Errorf("frame body of declared length %d is not one JSON value (%v): %q", length, err, clip(string(body))))
			return
		}
		f := Frame{Raw: body, Method: m.Method, Result: m.Result, Error: m.Error, Params: m.Params}
		if m.ID != nil && string(*m.ID) != "null" {
			f.HasID = true
			var v interface{}
			json.Unmarshal(*m.ID, &v)
			f.ID = v
		}
		c.mu.Lock()
		c.Frames = append(c.Frames, f)
		c.mu.Unlock()
		select {
		case c.notify <- struct{}{}:
		default:
		}
	}
}

func clip(s string) string {
	if len(s) > 200 {
		return s[:200] + "…"
	}
	return s
}

func (c *Client) setFrameErr(err error) {
	c.mu.Lock()
	if c.FrameErr == nil {
		c.FrameErr = err
	}
	c.mu.Unlock()
}

// SendRaw writes bytes to the server's input.
func (c *Client) SendRaw(b []byte) error {
	errc := make(chan error, 1)
	go func() { _, err := c.in.Write(b); errc <- err }()
	select {
	case err := <-errc:
		return err
	case <-c.done:
		return fmt.Errorf("server is gone")
	case <-time.After(10 * time.Second):
		return fmt.Errorf("server does not read its input")
	}
}

// Send frames a JSON body correctly and sends it.
func (c *Client) Send(body string) error {
	return c.SendRaw([]byte(fmt.Sprintf("Content-Length: %d\r\n\r\n%s", len(body), body)))
}

// Sync sends a sentinel request and waits for its response, so that every
// earlier message has been processed (the server is sequential).
func (c *Client) Sync(id string) error {
	if err := c.Send(fmt.Sprintf(`{"jsonrpc":"2.0","id":%q,"method":"$/verifSync"}`, id)); err != nil {
		return err
	}
	deadline := time.After(20 * time.Second)
	for {
		c.mu.Lock()
		for _, f := range c.Frames {
			if f.HasID && f.ID == id {
				c.mu.Unlock()
				return nil
			}
		}
		died, ferr := c.Died, c.FrameErr
		c.mu.Unlock()
		if died != "" {
			return fmt.Errorf("server died: %s", died)
		}
		if ferr != nil {
			return ferr
		}
		select {
		case <-c.notify:
		case <-c.done:
		case <-time.After(50 * time.Millisecond):
		case <-deadline:
			return fmt.Errorf("no response to the sync request within 20 s")
		}
	}
}

// Snapshot returns a copy of the frames seen so far.
func (c *Client) Snapshot() ([]Frame, string, error) {
	c.mu.Lock()
	defer c.mu.Unlock()
	return append([]Frame(nil), c.Frames...), c.Died, c.FrameErr
}

// Close ends the session.
func (c *Client) Close() {
	c.in.Close()
	select {
	case <-c.done:
	case <-time.After(5 * time.Second):
	}
}

// ---------------------------------------------------------------- reference document model (UTF-16 positions)

// Apply applies an incremental edit to text under the protocol's position
// rules: characters are UTF-16 code units; a character past the end of its
// line clamps to the line end, a line past the last line clamps to the end of
// the document.  ok is false for ranges the protocol does not allow (negative
// numbers, start after end), which a server must survive but need not apply.
func Apply(text string, sl, sc, el, ec int, newText string) (string, bool) {
	if sl < 0 || sc < 0 || el < 0 || ec < 0 {
		return text, false
	}
	s := Offset(text, sl, sc)
	e := Offset(text, el, ec)
	if s > e {
		return text, false
	}
	return text[:s] + newText + text[e:], true
}

// Offset converts a (line, UTF-16 character) position to a byte offset.
func Offset(text string, line, char int) int {
	off := 0
	for l := 0; l < line; l++ {
		i := strings.IndexByte(text[off:], '\n')
		if i < 0 {
			return len(text)
		}
		off += i + 1
	}
	end := strings.IndexByte(text[off:], '\n')
	lineEnd := len(text)
	if end >= 0 {
		lineEnd = off + end
		if lineEnd > off && text[lineEnd-1] == '\r' {
			lineEnd-- // the line ending is CR LF: neither byte is a character of the line
		}
	}
	units := 0
	for i, r := range text[off:lineEnd] {
		if units >= char {
			return off + i
		}
		if r >= 0x10000 {
			units += 2
		} else {
			units++
		}
	}
	return lineEnd
}

// UTF16Len returns the length of s in UTF-16 code units.
func UTF16Len(s string) int {
	n := 0
	for _, r := range s {
		if r >= 0x10000 {
			n += 2
		} else {
			n++
		}
	}
	return n
}
