// Package obs maps the library's token stream into the small kind lattice the
// reference grammar uses (DESIGN.md section 2, "observation function").
package obs

import (
	"strings"

	"github.com/ajitpratap0/GoSQLX/pkg/models"
	"verif/gen/lexgen"
)

// Tok is an observed token.
type Tok struct {
	Kind    string `json:"kind"` // lexgen kinds, plus "kw"/"id" split of words, plus "eof"
	Value   string `json:"value"`
	Line    int    `json:"line"`
	Col     int    `json:"col"`
	EndLine int    `json:"end_line"`
	EndCol  int    `json:"end_col"`
	Part    int    `json:"part,omitempty"` // >0: n-th word of a compound keyword token (positions are the compound's)
}

var opTypes = map[models.TokenType]bool{}

func init() {
	for _, t := range []models.TokenType{
		models.TokenTypeEq, models.TokenTypeDoubleEq, models.TokenTypeNeq, models.TokenTypeLt, models.TokenTypeGt,
		models.TokenTypeLtEq, models.TokenTypeGtEq, models.TokenTypeSpaceship, models.TokenTypePlus, models.TokenTypeMinus,
		models.TokenTypeMul, models.TokenTypeDiv, models.TokenTypeDuckIntDiv, models.TokenTypeMod, models.TokenTypeStringConcat,
		models.TokenTypeColon, models.TokenTypeDoubleColon, models.TokenTypeAssignment, models.TokenTypeAmpersand,
		models.TokenTypePipe, models.TokenTypeCaret, models.TokenTypeRArrow, models.TokenTypeSharp, models.TokenTypeTilde,
		models.TokenTypeExclamationMark, models.TokenTypeAtSign, models.TokenTypeQuestion, models.TokenTypeTildeAsterisk,
		models.TokenTypeExclamationMarkTilde, models.TokenTypeExclamationMarkTildeAsterisk, models.TokenTypeOverlap,
		models.TokenTypeArrow, models.TokenTypeLongArrow, models.TokenTypeHashArrow, models.TokenTypeHashLongArrow,
		models.TokenTypeAtArrow, models.TokenTypeArrowAt, models.TokenTypeHashMinus, models.TokenTypeAtQuestion,
		models.TokenTypeAtAt, models.TokenTypeQuestionAnd, models.TokenTypeQuestionPipe, models.TokenTypeAsterisk,
		models.TokenTypeDoublePipe, models.TokenTypeOperator, models.TokenTypeShiftLeft, models.TokenTypeShiftRight,
	} {
		opTypes[t] = true
	}
}

var punctTypes = map[models.TokenType]bool{}

func init() {
	for _, t := range []models.TokenType{models.TokenTypeComma, models.TokenTypeLParen, models.TokenTypeLeftParen, models.TokenTypeRParen,
		models.TokenTypeRightParen, models.TokenTypePeriod, models.TokenTypeDot, models.TokenTypeSemicolon,
		models.TokenTypeLBracket, models.TokenTypeRBracket, models.TokenTypeLBrace, models.TokenTypeRBrace} {
		punctTypes[t] = true
	}
}

// Observe converts a token stream; compound keyword tokens are split into their words.
func Observe(toks []models.TokenWithSpan) []Tok {
	out := make([]Tok, 0, len(toks))
	for _, tw := range toks {
		t := tw.Token
		base := Tok{Value: t.Value, Line: tw.Start.Line, Col: tw.Start.Column, EndLine: tw.End.Line, EndCol: tw.End.Column}
		switch {
		case t.Type == models.TokenTypeEOF:
			base.Kind = "eof"
		case t.Type == models.TokenTypeNumber:
			base.Kind = lexgen.KNumber
		case t.Type == models.TokenTypePlaceholder:
			base.Kind = lexgen.KPlace
		case t.Type == models.TokenTypeDoubleQuotedString:
			base.Kind = lexgen.KQIdent
		case t.Type == models.TokenTypeString, t.Type == models.TokenTypeSingleQuotedString, t.Type == models.TokenTypeDollarQuotedString,
			t.Type == models.TokenTypeTripleSingleQuotedString, t.Type == models.TokenTypeTripleDoubleQuotedString,
			t.Type == models.TokenTypeNationalStringLiteral, t.Type == models.TokenTypeEscapedStringLiteral,
			t.Type == models.TokenTypeUnicodeStringLiteral, t.Type == models.TokenTypeHexStringLiteral, t.Type == models.TokenTypeByteStringLiteral:
			base.Kind = lexgen.KString
		case punctTypes[t.Type]:
			base.Kind = lexgen.KPunct
		case opTypes[t.Type]:
			base.Kind = lexgen.KOp
		case t.Type == models.TokenTypeIdentifier && t.Word == nil:
			base.Kind = lexgen.KBIdent // identifier token not produced by the word reader: backticked
		case t.Type == models.TokenTypeIdentifier || t.Type == models.TokenTypeWord:
			base.Kind = "id"
		default:
			base.Kind = "kw"
		}
		if (base.Kind == "kw" || base.Kind == "id") && strings.Contains(t.Value, " ") {
			for i, w := range strings.Fields(t.Value) {
				p := base
				p.Kind, p.Value, p.Part = "kw", w, i+1
				out = append(out, p)
			}
			continue
		}
		out = append(out, base)
	}
	return out
}
