// Package astdump is a reflection deep-dump used for tree equality, snapshots
// of held values and node multisets.  Zero-valued fields are omitted, so nil
// and empty slices, nil and absent pointers compare equal; everything else
// (dynamic types, unexported fields, pointer structure) is printed.
package astdump

import (
	"fmt"
	"reflect"
	"sort"
	"strings"
	"unsafe"
)

// Options tune normalisation.
type Options struct {
	FoldCase bool // case-fold every string (used where only keyword/operator case may differ)
	// FoldKeywords case-folds only the string fields that hold keywords or
	// operator words (operators, join/frame/lock/fetch types, type names, boolean
	// literal spellings); names, aliases and literal contents stay exact.
	FoldKeywords bool
	// Skip names fields ("Type.Field") that are left out of the dump.
	Skip map[string]bool
	// MaxDepth guards against runaway structures (0 = 10000).
	MaxDepth int
}

// keywordFields lists string fields whose content is a keyword or operator word.
var keywordFields = map[string]bool{
	"BinaryExpression.Operator": true, "SetOperation.Operator": true, "WindowFrame.Type": true, "WindowFrameBound.Type": true,
	"JoinClause.Type": true, "FetchClause.FetchType": true, "ForClause.LockType": true, "LiteralValue.Type": true,
	"CastExpression.Type": true, "AnyExpression.Operator": true, "AllExpression.Operator": true, "ColumnDef.Type": true,
	"ColumnConstraint.Type": true, "TableConstraint.Type": true, "DropStatement.ObjectType": true, "DropStatement.CascadeType": true,
	"TruncateStatement.CascadeType": true, "MergeWhenClause.Type": true, "MergeAction.ActionType": true, "ReferenceDefinition.OnDelete": true,
	"ReferenceDefinition.OnUpdate": true, "IndexColumn.Direction": true, "CreateIndexStatement.Using": true, "CreateViewStatement.WithOption": true,
	"PartitionBy.Type": true, "AlterTableAction.Type": true,
}

// Dump renders v.
func Dump(v interface{}) string { return DumpOpt(v, Options{}) }

func DumpOpt(v interface{}, o Options) string {
	var b strings.Builder
	d := dumper{o: o, seen: map[uintptr]bool{}, b: &b}
	d.dump(reflect.ValueOf(v), 0)
	return b.String()
}

type dumper struct {
	o    Options
	seen map[uintptr]bool
	b    *strings.Builder
}

func isZero(v reflect.Value) bool {
	switch v.Kind() {
	case reflect.Slice, reflect.Map:
		return v.Len() == 0
	case reflect.Ptr, reflect.Interface, reflect.Func, reflect.Chan:
		return v.IsNil()
	case reflect.Struct:
		for i := 0; i < v.NumField(); i++ {
			if !isZero(v.Field(i)) {
				return false
			}
		}
		return true
	case reflect.Array:
		for i := 0; i < v.Len(); i++ {
			if !isZero(v.Index(i)) {
				return false
			}
		}
		return true
	default:
		return v.IsZero()
	}
}

func (d *dumper) dump(v reflect.Value, depth int) {
	max := d.o.MaxDepth
	if max == 0 {
		max = 10000
	}
	if depth > max {
		d.b.WriteString("<too deep>")
		return
	}
	if !v.IsValid() {
		d.b.WriteString("nil")
		return
	}
	switch v.Kind() {
	case reflect.Interface:
		if v.IsNil() {
			d.b.WriteString("nil")
			return
		}
		d.dump(v.Elem(), depth+1)
	case reflect.Ptr:
		if v.IsNil() {
			d.b.WriteString("nil")
			return
		}
		p := v.Pointer()
		if d.seen[p] && v.Elem().Kind() == reflect.Struct {
			// sharing is legal in a DAG; only a cycle on the current path is cut
			d.b.WriteString("&<cycle>")
			return
		}
		d.seen[p] = true
		d.b.WriteString("&")
		d.dump(v.Elem(), depth+1)
		delete(d.seen, p)
	case reflect.Struct:
		t := v.Type()
		d.b.WriteString(t.Name())
		d.b.WriteString("{")
		first := true
		foldThis := -1
		if d.o.FoldKeywords {
			if t.Name() == "LiteralValue" {
				if ty := v.FieldByName("Type"); ty.IsValid() && ty.Kind() == reflect.String && strings.EqualFold(ty.String(), "bool") {
					if idx, ok := t.FieldByName("Value"); ok {
						foldThis = idx.Index[0]
					}
				}
			}
		}
		for i := 0; i < v.NumField(); i++ {
			f := v.Field(i)
			if d.o.Skip != nil && d.o.Skip[t.Name()+"."+t.Field(i).Name] {
				continue
			}
			fold := d.o.FoldKeywords && (keywordFields[t.Name()+"."+t.Field(i).Name] || i == foldThis)
			if !f.CanInterface() {
				if f.CanAddr() {
					f = reflect.NewAt(f.Type(), unsafe.Pointer(f.UnsafeAddr())).Elem()
				} else {
					// copy into addressable storage to read unexported fields
					c := reflect.New(v.Type()).Elem()
					c.Set(v)
					f = c.Field(i)
					f = reflect.NewAt(f.Type(), unsafe.Pointer(f.UnsafeAddr())).Elem()
				}
			}
			if isZero(f) {
				continue
			}
			if !first {
				d.b.WriteString(",")
			}
			first = false
			d.b.WriteString(t.Field(i).Name)
			d.b.WriteString(":")
			if fold {
				saved := d.o.FoldCase
				d.o.FoldCase = true
				d.dump(f, depth+1)
				d.o.FoldCase = saved
			} else {
				d.dump(f, depth+1)
			}
		}
		d.b.WriteString("}")
	case reflect.Slice, reflect.Array:
		d.b.WriteString("[")
		for i := 0; i < v.Len(); i++ {
			if i > 0 {
				d.b.WriteString(",")
			}
			d.dump(v.Index(i), depth+1)
		}
		d.b.WriteString("]")
	case reflect.Map:
		keys := v.MapKeys()
		ks := make([]string, len(keys))
		m := map[string]reflect.Value{}
		for i, k := range keys {
			ks[i] = fmt.Sprint(k.Interface())
			m[ks[i]] = v.MapIndex(k)
		}
		sort.Strings(ks)
		d.b.WriteString("map[")
		for i, k := range ks {
			if i > 0 {
				d.b.WriteString(",")
			}
			d.b.WriteString(k + ":")
			d.dump(m[k], depth+1)
		}
		d.b.WriteString("]")
	case reflect.String:
		s := v.String()
		if d.o.FoldCase {
			s = strings.ToUpper(s)
		}
		fmt.Fprintf(d.b, "%q", s)
	case reflect.Func, reflect.Chan, reflect.UnsafePointer:
		d.b.WriteString("<" + v.Kind().String() + ">")
	default:
		fmt.Fprintf(d.b, "%v", v)
	}
}

// Diff returns a short description of the first difference of two dumps.
func Diff(a, b string) string {
	if a == b {
		return ""
	}
	i := 0
	for i < len(a) && i < len(b) && a[i] == b[i] {
		i++
	}
	lo := i - 60
	if lo < 0 {
		lo = 0
	}
	cut := func(s string) string {
		hi := i + 80
		if hi > len(s) {
			hi = len(s)
		}
		return s[lo:hi]
	}
	return fmt.Sprintf("first difference at %d:\n   got: …%s\n  want: …%s", i, cut(a), cut(b))
}
