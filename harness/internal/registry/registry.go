// Package registry holds enumerations generated from the tree under test
// (registry_gen.go, rewritten by cmd/genregistry before every build).
package registry

// Pool describes one pooled node type.
type Pool struct {
	Type string
	Get  func() interface{}  // nil when the pool has no exported getter
	Put  func(v interface{}) // releases v through its public path
	New  func() interface{}  // a freshly constructed zero value
}
