// Package reflectx: reflection walks over AST values (node enumeration through
// fields) and fillers that populate a struct with arbitrary non-zero content.
package reflectx

import (
	"reflect"

	"github.com/ajitpratap0/GoSQLX/pkg/sql/ast"
)

var nodeIface = reflect.TypeOf((*ast.Node)(nil)).Elem()

// IsNodeType: T or *T implements ast.Node.
func IsNodeType(t reflect.Type) bool {
	if t.Kind() == reflect.Ptr {
		t = t.Elem()
	}
	if t.Kind() != reflect.Struct {
		return false
	}
	return t.Implements(nodeIface) || reflect.PtrTo(t).Implements(nodeIface)
}

// Descend, when set, is given every struct value after it was reported and returns the value
// whose fields are walked instead (see SharedDerivedTableOnce).
var Descend func(reflect.Value) reflect.Value

// SharedDerivedTableOnce is a Descend function: the parser records the table in front of the
// first JOIN both in SelectStatement.From and as that join's Left; when it is a derived table
// both hold the same *SelectStatement. That query is one object of the tree, attached at From:
// below a SelectStatement the join's Left is walked without it.
func SharedDerivedTableOnce(v reflect.Value) reflect.Value {
	sel, ok := v.Interface().(ast.SelectStatement)
	if !ok || len(sel.Joins) == 0 {
		return v
	}
	changed := false
	joins := append([]ast.JoinClause(nil), sel.Joins...)
	for i := range joins {
		if joins[i].Left.Subquery == nil {
			continue
		}
		for k := range sel.From {
			if sel.From[k].Subquery == joins[i].Left.Subquery {
				joins[i].Left.Subquery = nil
				changed = true
				break
			}
		}
	}
	if !changed {
		return v
	}
	sel.Joins = joins
	return reflect.ValueOf(sel)
}

// Reachable calls f for every node-typed struct value reachable from v
// through exported fields, pointers, interfaces, slices, arrays and maps.
// f receives the struct value (never a pointer).
func Reachable(v reflect.Value, f func(reflect.Value)) {
	seen := map[uintptr]bool{}
	var walk func(v reflect.Value, depth int)
	walk = func(v reflect.Value, depth int) {
		if !v.IsValid() || depth > 5000 {
			return
		}
		switch v.Kind() {
		case reflect.Interface:
			if !v.IsNil() {
				walk(v.Elem(), depth+1)
			}
		case reflect.Ptr:
			if v.IsNil() {
				return
			}
			if v.Elem().Kind() == reflect.Struct {
				// a node shared by two fields is part of the tree twice (it is
				// reachable along two paths); only a cycle on the current path is cut
				p := v.Pointer()
				if seen[p] {
					return
				}
				seen[p] = true
				defer delete(seen, p)
			}
			walk(v.Elem(), depth+1)
		case reflect.Struct:
			if IsNodeType(v.Type()) {
				f(v)
			}
			if Descend != nil {
				v = Descend(v)
			}
			for i := 0; i < v.NumField(); i++ {
				if v.Type().Field(i).PkgPath != "" {
					continue // unexported
				}
				walk(v.Field(i), depth+1)
			}
		case reflect.Slice, reflect.Array:
			for i := 0; i < v.Len(); i++ {
				walk(v.Index(i), depth+1)
			}
		case reflect.Map:
			for _, k := range v.MapKeys() {
				walk(v.MapIndex(k), depth+1)
			}
		}
	}
	walk(v, 0)
}

// Fill sets v (a settable value) to arbitrary non-zero content.  depth bounds
// nesting; tag makes strings distinguishable.
// SliceLen is the number of elements Fill puts into every slice (default 1). Release paths that
// treat long slices differently from short ones are only exercised with long ones.
var SliceLen = 1

func Fill(v reflect.Value, tag string, depth int) {
	if !v.CanSet() {
		return
	}
	t := v.Type()
	switch t.Kind() {
	case reflect.String:
		v.SetString("dirty_" + tag)
	case reflect.Bool:
		v.SetBool(true)
	case reflect.Int, reflect.Int8, reflect.Int16, reflect.Int32, reflect.Int64:
		v.SetInt(7)
	case reflect.Uint, reflect.Uint8, reflect.Uint16, reflect.Uint32, reflect.Uint64:
		v.SetUint(7)
	case reflect.Float32, reflect.Float64:
		v.SetFloat(1.5)
	case reflect.Ptr:
		if depth <= 0 {
			if t.Elem().Kind() != reflect.Struct {
				nv := reflect.New(t.Elem())
				Fill(nv.Elem(), tag, 0)
				v.Set(nv)
			}
			return
		}
		nv := reflect.New(t.Elem())
		Fill(nv.Elem(), tag, depth-1)
		v.Set(nv)
	case reflect.Struct:
		for i := 0; i < v.NumField(); i++ {
			if t.Field(i).PkgPath != "" {
				continue
			}
			Fill(v.Field(i), tag+"."+t.Field(i).Name, depth-1)
		}
	case reflect.Slice:
		n := SliceLen
		if n < 1 {
			n = 1
		}
		sl := reflect.MakeSlice(t, 0, n+1)
		saved := SliceLen
		SliceLen = 1 // only the outermost slice is long: nested ones would multiply
		for i := 0; i < n; i++ {
			e := reflect.New(t.Elem()).Elem()
			Fill(e, tag, depth-1)
			sl = reflect.Append(sl, e)
		}
		SliceLen = saved
		v.Set(sl)
	case reflect.Map:
		m := reflect.MakeMap(t)
		k := reflect.New(t.Key()).Elem()
		e := reflect.New(t.Elem()).Elem()
		Fill(k, tag, 0)
		Fill(e, tag, depth-1)
		m.SetMapIndex(k, e)
		v.Set(m)
	case reflect.Interface:
		if t.NumMethod() == 0 {
			v.Set(reflect.ValueOf("dirty_" + tag))
			return
		}
		id := reflect.ValueOf(&ast.Identifier{Name: "dirty_" + tag, Table: "dirty"})
		if id.Type().Implements(t) {
			v.Set(id)
			return
		}
		st := reflect.ValueOf(&ast.SelectStatement{Distinct: true, TableName: "dirty_" + tag, Columns: []ast.Expression{&ast.Identifier{Name: "dirty"}}})
		if st.Type().Implements(t) {
			v.Set(st)
		}
	}
}

// Residue reports what a released object still holds outside its visible length: for every
// slice reachable from v (through exported fields, pointers, interfaces and the slices'
// visible elements) the elements between len and cap that are not the zero value. A freshly
// constructed object has none; a pooled one that merely truncates a slice keeps the previous
// holder's children (and whatever they reference) one reslice away.
func Residue(v reflect.Value) []string {
	var out []string
	seen := map[uintptr]bool{}
	var walk func(v reflect.Value, path string, depth int)
	walk = func(v reflect.Value, path string, depth int) {
		if !v.IsValid() || depth > 200 {
			return
		}
		switch v.Kind() {
		case reflect.Interface:
			if !v.IsNil() {
				walk(v.Elem(), path, depth+1)
			}
		case reflect.Ptr:
			if v.IsNil() {
				return
			}
			p := v.Pointer()
			if seen[p] {
				return
			}
			seen[p] = true
			walk(v.Elem(), path, depth+1)
		case reflect.Struct:
			for i := 0; i < v.NumField(); i++ {
				if v.Type().Field(i).PkgPath != "" {
					continue
				}
				walk(v.Field(i), path+"."+v.Type().Field(i).Name, depth+1)
			}
		case reflect.Slice:
			if v.IsNil() {
				return
			}
			full := v.Slice(0, v.Cap())
			for i := v.Len(); i < full.Len(); i++ {
				if !full.Index(i).IsZero() {
					out = append(out, path+"[len+"+itoa(i-v.Len())+"] of cap "+itoa(v.Cap()))
					break
				}
			}
			for i := 0; i < v.Len(); i++ {
				walk(v.Index(i), path+"[]", depth+1)
			}
		}
	}
	walk(v, "", 0)
	return out
}

func itoa(i int) string {
	if i == 0 {
		return "0"
	}
	var b []byte
	for ; i > 0; i /= 10 {
		b = append([]byte{byte('0' + i%10)}, b...)
	}
	return string(b)
}
