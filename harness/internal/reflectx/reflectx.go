// Package reflectx: reflection walks over AST values (node enumeration through
// fields) and fillers that populate a struct with arbitrary non-zero content.
package reflectx

import (
	"reflect"

	"github.com/ajitpratap0/GoSQLX/pkg/sql/ast"
)

var nodeIface = reflect.TypeOf((*ast.Node)(nil)).Elem()

// IsNodeType: T or *T implements ast.Node.
func IsNodeType(t reflect.Type) bool {
	if t.Kind() == reflect.Ptr {
		t = t.Elem()
	}
	if t.Kind() != reflect.Struct {
		return false
	}
	return t.Implements(nodeIface) || reflect.PtrTo(t).Implements(nodeIface)
}

// Reachable calls f for every node-typed struct value reachable from v
// through exported fields, pointers, interfaces, slices, arrays and maps.
// f receives the struct value (never a pointer).
func Reachable(v reflect.Value, f func(reflect.Value)) {
	seen := map[uintptr]bool{}
	var walk func(v reflect.Value, depth int)
	walk = func(v reflect.Value, depth int) {
		if !v.IsValid() || depth > 5000 {
			return
		}
		switch v.Kind() {
		case reflect.Interface:
			if !v.IsNil() {
				walk(v.Elem(), depth+1)
			}
		case reflect.Ptr:
			if v.IsNil() {
				return
			}
			if v.Elem().Kind() == reflect.Struct {
				// a node shared by two fields is part of the tree twice (it is
				// reachable along two paths); only a cycle on the current path is cut
				p := v.Pointer()
				if seen[p] {
					return
				}
				seen[p] = true
				defer delete(seen, p)
			}
			walk(v.Elem(), depth+1)
		case reflect.Struct:
			if IsNodeType(v.Type()) {
				f(v)
			}
			for i := 0; i < v.NumField(); i++ {
				if v.Type().Field(i).PkgPath != "" {
					continue // unexported
				}
				walk(v.Field(i), depth+1)
			}
		case reflect.Slice, reflect.Array:
			for i := 0; i < v.Len(); i++ {
				walk(v.Index(i), depth+1)
			}
		case reflect.Map:
			for _, k := range v.MapKeys() {
				walk(v.MapIndex(k), depth+1)
			}
		}
	}
	walk(v, 0)
}
