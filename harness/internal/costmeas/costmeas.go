// Package costmeas is the body of the C20 measurement child: it renders one input family at
// one size and runs every entry point on it, clearing the coverage counters before and
// writing them after each entry. It is linked into cmd/costprobe, an ordinary binary built
// with -cover -covermode=atomic (the runtime/coverage API does not work inside test binaries).
package costmeas

import (
	"encoding/json"
	"fmt"
	"os"
	"path/filepath"
	"runtime"
	"runtime/coverage"
	"strings"
	"syscall"

	cli "github.com/ajitpratap0/GoSQLX/cmd/gosqlx/cmd"
	"github.com/ajitpratap0/GoSQLX/pkg/formatter"
	"github.com/ajitpratap0/GoSQLX/pkg/gosqlx"
	"github.com/ajitpratap0/GoSQLX/pkg/linter"
	lkw "github.com/ajitpratap0/GoSQLX/pkg/linter/rules/keywords"
	"github.com/ajitpratap0/GoSQLX/pkg/linter/rules/style"
	"github.com/ajitpratap0/GoSQLX/pkg/linter/rules/whitespace"
	textsec "github.com/ajitpratap0/GoSQLX/pkg/security"
	"github.com/ajitpratap0/GoSQLX/pkg/sql/ast"
	"github.com/ajitpratap0/GoSQLX/pkg/sql/parser"
	"github.com/ajitpratap0/GoSQLX/pkg/sql/security"
	"github.com/ajitpratap0/GoSQLX/pkg/sql/tokenizer"
	"verif/gen/famgen"
)

// ---------------------------------------------------------------- entry points

type entry struct {
	Name string
	// prep runs unmeasured and returns the measured closure (nil: entry not applicable, e.g. input does not parse)
	prep func(in string) func()
}

func onTree(f func(t *ast.AST)) func(in string) func() {
	return func(in string) func() {
		t, err := gosqlx.Parse(in)
		if err != nil {
			return nil
		}
		return func() { f(t) }
	}
}

func cliRules() []linter.Rule {
	return []linter.Rule{
		whitespace.NewTrailingWhitespaceRule(), whitespace.NewMixedIndentationRule(), whitespace.NewConsecutiveBlankLinesRule(1),
		whitespace.NewIndentationDepthRule(4, 4), whitespace.NewLongLinesRule(100), whitespace.NewRedundantWhitespaceRule(),
		style.NewColumnAlignmentRule(), style.NewCommaPlacementRule(style.CommaTrailing), style.NewAliasingConsistencyRule(true),
		lkw.NewKeywordCaseRule(lkw.CaseUpper),
	}
}

// Entries lists the measured entry points.
var Entries = []entry{
	{"tokenize", func(in string) func() {
		return func() {
			z := tokenizer.GetTokenizer()
			_, _ = z.Tokenize([]byte(in))
			tokenizer.PutTokenizer(z)
		}
	}},
	{"parse", func(in string) func() { return func() { _, _ = gosqlx.Parse(in) } }},
	{"validate", func(in string) func() { return func() { _ = parser.ValidateBytes([]byte(in)) } }},
	{"parse_with_recovery", func(in string) func() { return func() { _, _ = gosqlx.ParseWithRecovery(in) } }},
	{"parse_with_positions", func(in string) func() {
		z := tokenizer.GetTokenizer()
		toks, err := z.Tokenize([]byte(in))
		if err != nil {
			return nil
		}
		return func() {
			p := parser.NewParser()
			_, _ = p.ParseFromModelTokensWithPositions(toks)
			p.Release()
		}
	}},
	{"ast_sql", onTree(func(t *ast.AST) { _ = t.SQL() })},
	{"ast_format", onTree(func(t *ast.AST) {
		_ = t.Format(ast.FormatOptions{IndentWidth: 2, NewlinePerClause: true, KeywordCase: ast.KeywordUpper, LineWidth: 80})
	})},
	{"cli_formatter", onTree(func(t *ast.AST) {
		_, _ = cli.NewSQLFormatter(cli.FormatterOptions{Indent: "  ", UppercaseKw: true, AlignColumns: true}).Format(t)
	})},
	{"gosqlx_format", func(in string) func() {
		return func() { _, _ = gosqlx.Format(in, gosqlx.FormatOptions{IndentSize: 2, UppercaseKeywords: true}) }
	}},
	{"formatter_format", func(in string) func() {
		return func() { _, _ = formatter.New(formatter.Options{Uppercase: true}).Format(in) }
	}},
	{"extract", onTree(func(t *ast.AST) {
		_ = gosqlx.ExtractTables(t)
		_ = gosqlx.ExtractColumns(t)
		_ = gosqlx.ExtractFunctions(t)
		_ = gosqlx.ExtractTablesQualified(t)
		_ = gosqlx.ExtractColumnsQualified(t)
		_ = gosqlx.ExtractMetadata(t)
	})},
	{"inspect", onTree(func(t *ast.AST) { ast.Inspect(t, func(ast.Node) bool { return true }) })},
	{"scan_tree", onTree(func(t *ast.AST) { _ = security.NewScanner().Scan(t) })},
	{"scan_sql", func(in string) func() { return func() { _ = security.NewScanner().ScanSQL(in) } }},
	{"text_scanner", func(in string) func() { return func() { _ = textsec.NewScanner().Scan(in) } }},
	{"lint", func(in string) func() { return func() { _ = linter.New(cliRules()...).LintString(in, "x.sql") } }},
	{"lint_fix", func(in string) func() {
		l := linter.New(cliRules()...)
		res := l.LintString(in, "x.sql")
		return func() {
			s := in
			for _, r := range l.Rules() {
				if r.CanAutoFix() {
					if out, err := r.Fix(s, res.Violations); err == nil {
						s = out
					}
				}
			}
		}
	}},
	{"release_ast", onTree(func(t *ast.AST) { ast.ReleaseAST(t) })},
}

// ---------------------------------------------------------------- measurement child

type MeasSpec struct {
	Family string   `json:"family"`
	Unit   string   `json:"unit"`
	N      int      `json:"n"`
	Out    string   `json:"out"`            // directory for results
	Only   []string `json:"only,omitempty"` // restrict to these entries
}

type Meas struct {
	Entry   string `json:"entry"`
	Bytes   int    `json:"bytes"`
	Alloc   uint64 `json:"alloc"`
	Mallocs uint64 `json:"mallocs"`
	CPUns   int64  `json:"cpu_ns"`
	Cover   bool   `json:"cover"`
	Skipped bool   `json:"skipped"`
}

// Render builds the input of a family at size n.
func Render(family, unit string, n int) (string, error) {
	if strings.HasPrefix(family, "comp:") {
		for _, c := range famgen.Compositions {
			if c.Name == family[5:] {
				if unit == "" {
					unit = famgen.DefaultUnit(c.Unit)
				}
				return c.Compose(unit, n), nil
			}
		}
	}
	for _, f := range famgen.Lexical {
		if f.Name == family {
			return f.Render(n), nil
		}
	}
	return "", fmt.Errorf("unknown family %q", family)
}

func cpuNow() int64 {
	var ru syscall.Rusage
	syscall.Getrusage(syscall.RUSAGE_SELF, &ru)
	return ru.Utime.Nano() + ru.Stime.Nano()
}

// Run executes the measurement described by the JSON spec and returns the exit status.
func Run(spec string) int {
	var s MeasSpec
	if err := json.Unmarshal([]byte(spec), &s); err != nil {
		fmt.Fprintln(os.Stderr, err)
		return 3
	}
	in, err := Render(s.Family, s.Unit, s.N)
	if err != nil {
		fmt.Fprintln(os.Stderr, err)
		return 3
	}
	// warm the pools and lazily built tables so they are not billed to the first entry
	_, _ = gosqlx.Parse("SELECT a FROM t WHERE b = 1")
	_ = security.NewScanner().ScanSQL("SELECT 1")
	_ = linter.New(cliRules()...).LintString("SELECT 1", "w.sql")
	// writing the meta-data first also initialises the coverage runtime's notion of the
	// counter mode, without which ClearCounters refuses to work in a test binary
	_ = coverage.WriteMetaDir(s.Out)
	var out []Meas
	for _, e := range Entries {
		if len(s.Only) > 0 {
			keep := false
			for _, o := range s.Only {
				keep = keep || o == e.Name
			}
			if !keep {
				continue
			}
		}
		m := Meas{Entry: e.Name, Bytes: len(in)}
		f := e.prep(in)
		if f == nil {
			m.Skipped = true
			out = append(out, m)
			continue
		}
		runtime.GC()
		cerr := coverage.ClearCounters()
		if cerr != nil && os.Getenv("VERIF_C20_DEBUG") != "" {
			fmt.Fprintln(os.Stderr, "ClearCounters:", cerr)
		}
		m.Cover = cerr == nil
		var ms0, ms1 runtime.MemStats
		runtime.ReadMemStats(&ms0)
		c0 := cpuNow()
		f()
		c1 := cpuNow()
		runtime.ReadMemStats(&ms1)
		m.Alloc, m.Mallocs, m.CPUns = ms1.TotalAlloc-ms0.TotalAlloc, ms1.Mallocs-ms0.Mallocs, c1-c0
		if m.Cover {
			d := filepath.Join(s.Out, e.Name)
			os.MkdirAll(d, 0o755)
			if coverage.WriteMetaDir(d) != nil || coverage.WriteCountersDir(d) != nil {
				m.Cover = false
			}
		}
		out = append(out, m)
	}
	b, _ := json.Marshal(out)
	if err := os.WriteFile(filepath.Join(s.Out, "meas.json"), b, 0o644); err != nil {
		fmt.Fprintln(os.Stderr, err)
		return 3
	}
	return 0
}
