// costprobe runs one C20 measurement (see internal/costmeas); built with -cover -covermode=atomic.
package main

import (
	"fmt"
	"os"

	"verif/internal/costmeas"
)

func main() {
	if len(os.Args) != 2 {
		fmt.Fprintln(os.Stderr, "usage: costprobe <json spec>")
		os.Exit(3)
	}
	os.Exit(costmeas.Run(os.Args[1]))
}
