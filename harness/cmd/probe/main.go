package main

import (
	"fmt"

	"github.com/ajitpratap0/GoSQLX/pkg/gosqlx"
)

func main() {
	for _, s := range []string{"SELECT (NOT a) = b OR c", "SELECT 1 FROM t WHERE (a IN (1, 2)) = TRUE AND c = 1", "SELECT (NOT a) = b", "SELECT ((NOT a) = b) + 1 > 2 OR c"} {
		t, err := gosqlx.Parse(s)
		if err != nil {
			fmt.Println("ERR", err)
			continue
		}
		fmt.Println(s, " => ", t.SQL())
	}
}
