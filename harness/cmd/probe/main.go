package main

import (
	"fmt"

	"github.com/ajitpratap0/GoSQLX/pkg/gosqlx"
)

func main() {
	for _, s := range []string{"", " ", "-- c", ";"} {
		a, err := gosqlx.Parse(s)
		fmt.Printf("%q -> %v err=%v valid=%v\n", s, a != nil, err, gosqlx.Validate(s))
	}
}
