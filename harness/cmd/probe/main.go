package main

import (
	"fmt"
	"runtime"
	"sync"
	"sync/atomic"
	"time"

	"github.com/ajitpratap0/GoSQLX/pkg/metrics"
)

func main() {
	metrics.Enable()
	for _, g := range []int{2, 4, 8, 16} {
		lostMin, lostMax := 0, 0
		const rounds = 3000
		for r := 0; r < rounds; r++ {
			metrics.Reset()
			var arrived, release int32
			var wg sync.WaitGroup
			for i := 0; i < g; i++ {
				wg.Add(1)
				go func(i int) {
					defer wg.Done()
					atomic.AddInt32(&arrived, 1)
					for atomic.LoadInt32(&release) == 0 {
					}
					metrics.RecordTokenization(time.Microsecond, 10+i, nil)
				}(i)
			}
			for atomic.LoadInt32(&arrived) < int32(g) {
				runtime.Gosched()
			}
			atomic.StoreInt32(&release, 1)
			wg.Wait()
			st := metrics.GetStats()
			if st.MinQuerySize != 10 {
				lostMin++
			}
			if st.MaxQuerySize != int64(10+g-1) {
				lostMax++
			}
		}
		fmt.Printf("g=%d rounds=%d lostMin=%d lostMax=%d\n", g, rounds, lostMin, lostMax)
	}
}
