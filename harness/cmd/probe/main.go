package main

import (
	"fmt"

	"github.com/ajitpratap0/GoSQLX/pkg/gosqlx"
	"github.com/ajitpratap0/GoSQLX/pkg/sql/security"
)

func main() {
	for _, s := range []string{
		"SELECT a FROM t WHERE 1 = 1",
		"MERGE INTO t USING s ON 1 = 1 WHEN MATCHED THEN DELETE",
		"MERGE INTO t USING s ON t.a = s.a WHEN MATCHED AND 'a' = 'a' THEN DELETE",
		"MERGE INTO t USING s ON t.a = s.a WHEN MATCHED THEN UPDATE SET x = SLEEP(5)",
		"MERGE INTO t USING (SELECT a FROM u WHERE 1 = 1) s ON t.a = s.a WHEN MATCHED THEN DELETE",
		"CREATE VIEW v AS SELECT a FROM t WHERE 1 = 1",
		"CREATE MATERIALIZED VIEW v AS SELECT a FROM t WHERE 1 = 1",
		"CREATE INDEX ix ON t (a) WHERE 1 = 1",
		"CREATE TABLE t (a INT CHECK (1 = 1))",
	} {
		t, err := gosqlx.Parse(s)
		if err != nil {
			fmt.Println("ERR", s)
			continue
		}
		r := security.NewScanner().Scan(t)
		fmt.Printf("%-95s findings=%d\n", s, len(r.Findings))
	}
}
