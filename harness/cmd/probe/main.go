package main

import (
	"fmt"

	"github.com/ajitpratap0/GoSQLX/pkg/gosqlx"
)

func main() {
	for _, s := range []string{
		"MERGE INTO t1 a USING t2 b ON a.id = b.id WHEN MATCHED THEN UPDATE SET x = lower(b.y) WHEN NOT MATCHED THEN INSERT (id) VALUES (b.id)",
		"MERGE INTO t1 USING (SELECT c FROM t3) s ON t1.c = s.c WHEN MATCHED THEN DELETE",
		"CREATE VIEW v AS SELECT a, upper(b) FROM t WHERE c > 1",
		"CREATE TABLE t (a INT CHECK (a > abs(b)), b INT REFERENCES o (id))",
		"CREATE INDEX ix ON t (a) WHERE b > 0",
		"DROP TABLE t1, s.t2",
		"TRUNCATE TABLE t1",
		"INSERT INTO t1 (a) SELECT b FROM t2",
		"UPDATE t1 SET a = (SELECT max(b) FROM t2) WHERE c IN (SELECT d FROM t3)",
		"DELETE FROM t1 WHERE EXISTS (SELECT 1 FROM t2 WHERE t2.a = t1.a)",
	} {
		t, err := gosqlx.Parse(s)
		if err != nil {
			fmt.Println("ERR", s)
			continue
		}
		fmt.Printf("%s\n   tables=%v columns=%v functions=%v\n", s, gosqlx.ExtractTables(t), gosqlx.ExtractColumns(t), gosqlx.ExtractFunctions(t))
	}
}
