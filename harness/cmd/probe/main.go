package main

import (
	"fmt"
	"strings"

	"github.com/ajitpratap0/GoSQLX/pkg/gosqlx"
	"verif/internal/astdump"
)

func main() {
	for _, s := range []string{
		"ALTER TABLE t ADD COLUMN c INT",
		"ALTER TABLE t ADD c INT",
		"ALTER TABLE s.t ADD COLUMN IF NOT EXISTS \"c d\" VARCHAR(10) NOT NULL DEFAULT 'x'",
		"ALTER TABLE t DROP COLUMN c",
		"ALTER TABLE t DROP COLUMN IF EXISTS c CASCADE",
		"ALTER TABLE t DROP c",
		"ALTER TABLE t RENAME TO u",
		"ALTER TABLE t RENAME COLUMN a TO b",
		"ALTER TABLE t ADD CONSTRAINT uq UNIQUE (a, b)",
		"ALTER TABLE t DROP CONSTRAINT uq",
		"ALTER TABLE t ALTER COLUMN a SET NOT NULL",
		"ALTER TABLE t ALTER COLUMN a SET DEFAULT 1",
		"ALTER TABLE t ALTER COLUMN a TYPE BIGINT",
		"ALTER TABLE t MODIFY COLUMN a BIGINT",
	} {
		t, err := gosqlx.Parse(s)
		if err != nil {
			e := strings.Split(err.Error(), "\n")[0]
			fmt.Printf("REJECT %-70s %s\n", s, e[strings.Index(e, "column 0:")+9:])
			continue
		}
		fmt.Printf("ok     %-70s %s\n        SQL=%q\n", s, astdump.Dump(t.Statements), t.SQL())
	}
}
