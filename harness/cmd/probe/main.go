package main

import (
	"fmt"
	"os"

	"github.com/ajitpratap0/GoSQLX/pkg/gosqlx"
	_ "pgregory.net/rapid"
)

func main() {
	for _, s := range os.Args[1:] {
		a, err := gosqlx.Parse(s)
		if err != nil {
			fmt.Printf("%q => ERR %v\n", s, err)
			continue
		}
		fmt.Printf("%q => OK %d stmts: %s\n", s, len(a.Statements), a.SQL())
	}
}
