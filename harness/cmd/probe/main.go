package main

import (
	"fmt"
	"strings"
	"time"

	"github.com/ajitpratap0/GoSQLX/pkg/gosqlx"
)

func main() {
	for _, pre := range []string{"x IN (SELECT ", "(SELECT ", "EXISTS (SELECT ", "x = ANY (SELECT ", "x IN ("} {
		for _, n := range []int{10, 14, 18, 22, 50, 101, 400} {
			s := "SELECT " + strings.Repeat(pre, n) + "1" + strings.Repeat(")", n)
			t0 := time.Now()
			_, err := gosqlx.Parse(s)
			d := time.Since(t0)
			e := "ok"
			if err != nil {
				e = err.Error()
				if len(e) > 50 {
					e = e[:50]
				}
			}
			fmt.Printf("%-18s n=%4d %10v %s\n", pre, n, d.Round(time.Microsecond), strings.ReplaceAll(e, "\n", " "))
			if d > 5*time.Second {
				break
			}
		}
	}
}
