package main

import (
	"fmt"
	"strings"

	"github.com/ajitpratap0/GoSQLX/pkg/gosqlx"
	"verif/internal/astdump"
)

func main() {
	for _, s := range []string{
		"MERGE INTO t USING (SELECT a FROM u) AS s ON t.a = s.a WHEN MATCHED THEN DELETE",
		"CREATE VIEW v AS WITH c AS (SELECT 1) SELECT * FROM c",
		"CREATE MATERIALIZED VIEW mv (a, b) AS SELECT 1, 2",
		"CREATE TABLE t (a INT REFERENCES s.o (x))",
		"CREATE TABLE t (a INT, FOREIGN KEY (a) REFERENCES s.o (x))",
		"CREATE TABLE t (a INT CONSTRAINT nn NOT NULL)",
		"CREATE TABLE t (a TIMESTAMP DEFAULT CURRENT_TIMESTAMP)",
		"CREATE TABLE t (a INT DEFAULT (1 + 2))",
		"CREATE TABLE t (a INT DEFAULT -1)",
		"CREATE TABLE t (a INT DEFAULT 1 + 2)",
		"CREATE TABLE t (a NUMERIC(10, 2))",
		"CREATE TABLE t (a DOUBLE PRECISION)",
		"CREATE TABLE t (a TIMESTAMP WITH TIME ZONE)",
		"CREATE TABLE t (a INT[])",
		"CREATE TABLE t (a VARCHAR)",
		"CREATE TABLE t (a INT PRIMARY KEY AUTO_INCREMENT)",
		"CREATE TABLE t (a INT GENERATED ALWAYS AS IDENTITY)",
		"CREATE TABLE t (a INT) PARTITION BY RANGE (a)",
		"CREATE TABLE s.t AS SELECT 1",
		"CREATE INDEX ix ON t (a NULLS FIRST)",
		"CREATE INDEX ix ON t ((a + 1))",
		"CREATE INDEX CONCURRENTLY ix ON t (a)",
		"CREATE INDEX ON t (a)",
		"DROP TABLE t, u",
		"DROP SCHEMA s",
		"DROP INDEX CONCURRENTLY ix",
		"TRUNCATE ONLY t",
		"MERGE INTO t USING s ON t.a = s.a WHEN NOT MATCHED BY TARGET THEN INSERT VALUES (1)",
		"MERGE INTO t USING s ON t.a = s.a WHEN NOT MATCHED THEN INSERT DEFAULT VALUES",
		"MERGE INTO t USING s ON t.a = s.a WHEN MATCHED THEN UPDATE SET a = 1 WHERE t.b > 0",
		"MERGE INTO t USING s ON t.a = s.a WHEN MATCHED THEN DO NOTHING",
		"ALTER TABLE t ADD CONSTRAINT pk PRIMARY KEY (a)",
	} {
		t, err := gosqlx.Parse(s)
		if err != nil {
			e := strings.Split(err.Error(), "\n")[0]
			fmt.Printf("REJECT %-90s %s\n", s, e[strings.Index(e, "column 0:")+9:])
			continue
		}
		fmt.Printf("ok     %-90s %s\n", s, astdump.Dump(t.Statements))
	}
}
