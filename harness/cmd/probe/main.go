package main

import (
	"fmt"

	"github.com/ajitpratap0/GoSQLX/pkg/sql/tokenizer"
)

func main() {
	z := tokenizer.GetTokenizer()
	t, _ := z.Tokenize([]byte("USING hash btree gin gist HASH brin"))
	for _, x := range t {
		fmt.Println(x.Token.Type, x.Token.Type.String(), x.Token.Value)
	}
}
