package main

import (
	"errors"
	"fmt"

	goerrors "github.com/ajitpratap0/GoSQLX/pkg/errors"
	"github.com/ajitpratap0/GoSQLX/pkg/gosqlx"
	"github.com/ajitpratap0/GoSQLX/pkg/sql/parser"
)

func main() {
	for _, s := range []string{"SELECT 1 FROM t1 HAVING count(*) > 1a\nb", "SELECT 1 a\nb", "SELECT 1 FROM t a\nb c", "SELECT 1\nb"} {
		st, errs := gosqlx.ParseWithRecovery(s)
		fmt.Printf("%q: %d stmts\n", s, len(st))
		for _, e := range errs {
			var pe *parser.ParseError
			var se *goerrors.Error
			errors.As(e, &pe)
			errors.As(e, &se)
			fmt.Printf("   ParseError idx=%d line=%d col=%d lit=%q | cause loc %d:%d msg=%s\n", pe.TokenIdx, pe.Line, pe.Column, pe.Literal, se.Location.Line, se.Location.Column, se.Message)
		}
		_, err := gosqlx.Parse(s)
		fmt.Println("   strict:", err != nil)
	}
}
