package main

import (
	"fmt"
	"os"

	"github.com/ajitpratap0/GoSQLX/pkg/gosqlx"
	"github.com/ajitpratap0/GoSQLX/pkg/sql/ast"
	"verif/internal/astdump"
)

func main() {
	for _, s := range os.Args[1:] {
		a, err := gosqlx.Parse(s)
		if err != nil {
			fmt.Printf("%q => ERR %v\n", s, err)
			continue
		}
		fmt.Printf("%q => OK %d stmts\n  SQL: %s\n  FMT: %q\n  DUMP: %s\n", s, len(a.Statements), a.SQL(), a.Format(ast.FormatOptions{AddSemicolon: true, KeywordCase: ast.KeywordPreserve}), astdump.Dump(a.Statements))
	}
}
