package main

import (
	"fmt"
	"os"
	"strconv"
	"time"

	"github.com/ajitpratap0/GoSQLX/pkg/gosqlx"
	"github.com/ajitpratap0/GoSQLX/pkg/linter"
	"github.com/ajitpratap0/GoSQLX/pkg/linter/rules/whitespace"
	"github.com/ajitpratap0/GoSQLX/pkg/sql/security"
	"verif/internal/costmeas"
)

func main() {
	n, _ := strconv.Atoi(os.Args[2])
	in, err := costmeas.Render(os.Args[1], "", n)
	if err != nil {
		panic(err)
	}
	step := func(name string, f func()) {
		t0 := time.Now()
		f()
		fmt.Printf("%-22s %8.2fs\n", name, time.Since(t0).Seconds())
	}
	fmt.Println(os.Args[1], len(in))
	step("parse", func() { _, err := gosqlx.Parse(in); fmt.Print(err != nil, " ") })
	step("format", func() { _, _ = gosqlx.Format(in, gosqlx.FormatOptions{}) })
	step("recovery", func() { _, _ = gosqlx.ParseWithRecovery(in) })
	step("scansql", func() { _ = security.NewScanner().ScanSQL(in) })
	step("lint L001+L010", func() {
		_ = linter.New(whitespace.NewTrailingWhitespaceRule(), whitespace.NewRedundantWhitespaceRule()).LintString(in, "x.sql")
	})
}
