package main

import (
	"fmt"
	"strings"

	"github.com/ajitpratap0/GoSQLX/pkg/gosqlx"
	"github.com/ajitpratap0/GoSQLX/pkg/sql/tokenizer"
)

func main() {
	for _, s := range []string{"SELECT 'left join' FROM t", "SELECT \"left join\" FROM t", "SELECT 'group by' FROM t", "SELECT 'ORDER BY' x", "SELECT a FROM t WHERE b = 'full join'", "SELECT 'grouping sets'", "SELECT $abc def", "SELECT @group by", "SELECT 'inner join', 'cross join', 'natural join', 'left outer join'"} {
		_, err := gosqlx.Parse(s)
		e := "ok"
		if err != nil {
			e = strings.Split(err.Error(), "\n")[0]
		}
		z := tokenizer.GetTokenizer()
		toks, _ := z.Tokenize([]byte(s))
		var tv []string
		for _, t := range toks {
			tv = append(tv, fmt.Sprintf("%s:%q", t.Token.Type, t.Token.Value))
		}
		tokenizer.PutTokenizer(z)
		fmt.Printf("%-50s %s\n    %s\n", s, e, strings.Join(tv, " "))
	}
}
