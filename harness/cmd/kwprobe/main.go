package main

import (
	"fmt"

	"github.com/ajitpratap0/GoSQLX/pkg/sql/keywords"
)

func main() {
	k := keywords.New(keywords.DialectGeneric, true)
	for _, w := range []string{"select", "SELECT", "from", "order", "name", "id", "user", "count", "status", "value", "type", "key", "date", "year", "table", "tables"} {
		fmt.Println(w, k.IsReserved(w), k.IsKeyword(w))
	}
}
