// fsizeexec sets RLIMIT_FSIZE to k bytes (optionally blocking SIGXFSZ so that
// write(2) fails with EFBIG instead of killing the process; a blocked signal mask
// survives exec and the Go runtime does not unblock SIGXFSZ) and execs a command:
//
//	fsizeexec <k> <block:0|1> <cmd> [args...]
//
// It injects a write failure after exactly k bytes into any file the command writes.
package main

import (
	"fmt"
	"os"
	"os/exec"
	"runtime"
	"strconv"
	"syscall"
	"unsafe"
)

func main() {
	if len(os.Args) < 4 {
		fmt.Fprintln(os.Stderr, "usage: fsizeexec <k> <ignore:0|1> <cmd> [args...]")
		os.Exit(2)
	}
	k, err := strconv.ParseUint(os.Args[1], 10, 64)
	if err != nil {
		fmt.Fprintln(os.Stderr, err)
		os.Exit(2)
	}
	runtime.LockOSThread()
	if os.Args[2] == "1" {
		var set [2]uint64 // kernel sigset_t is 8 bytes on linux/amd64 and arm64
		set[0] = 1 << (uint(syscall.SIGXFSZ) - 1)
		const sigBlock = 0
		if _, _, e := syscall.RawSyscall6(syscall.SYS_RT_SIGPROCMASK, sigBlock, uintptr(unsafe.Pointer(&set[0])), 0, 8, 0, 0); e != 0 {
			fmt.Fprintln(os.Stderr, "sigprocmask:", e)
			os.Exit(2)
		}
	}
	if err := syscall.Setrlimit(syscall.RLIMIT_FSIZE, &syscall.Rlimit{Cur: k, Max: k}); err != nil {
		fmt.Fprintln(os.Stderr, "setrlimit:", err)
		os.Exit(2)
	}
	path, err := exec.LookPath(os.Args[3])
	if err != nil {
		fmt.Fprintln(os.Stderr, err)
		os.Exit(2)
	}
	if err := syscall.Exec(path, os.Args[3:], os.Environ()); err != nil {
		fmt.Fprintln(os.Stderr, "exec:", err)
		os.Exit(2)
	}
}
