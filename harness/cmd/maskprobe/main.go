package main

import (
	"fmt"

	"github.com/ajitpratap0/GoSQLX/pkg/linter"
	"github.com/ajitpratap0/GoSQLX/pkg/linter/rules/whitespace"
)

func main() {
	s := "WHERE -- it's  a  comment\na @> 'mixed \t \n\t indent'\nSELECT 1"
	m, st := linter.LineMask(s)
	fmt.Println(st)
	for _, l := range m {
		fmt.Println(l)
	}
	r := whitespace.NewMixedIndentationRule()
	out, _ := r.Fix(s, nil)
	fmt.Printf("%q\n", out)
}
