module verif

go 1.23

toolchain go1.23.5

require (
	github.com/ajitpratap0/GoSQLX v0.0.0
	pgregory.net/rapid v1.3.0
)

replace github.com/ajitpratap0/GoSQLX => /repo
