package sqlgen

import (
	"reflect"

	"github.com/ajitpratap0/GoSQLX/pkg/sql/ast"
)

// MERGE and the supported DDL. Conventions (pkg/sql/ast): names are dotted strings
// without quotes, column lists are []string, a type is its source text without blanks,
// constraint kinds are upper-case words.

var (
	ddlTypes   = []string{"INT", "INTEGER", "BIGINT", "TEXT", "VARCHAR(10)", "DECIMAL(10,2)", "BOOLEAN", "DATE", "TIMESTAMP", "CHAR(3)"}
	objPool    = []ident{bare("ix_1"), bare("v_sales"), bare("mv1"), bare("pk_t"), bare("fk_o"), bare("uq1")}
	refActions = []string{"CASCADE", "SET NULL", "RESTRICT", "NO ACTION", "SET DEFAULT"}
)

func (g *G) plainTable() ident {
	t := g.pick(tblPool, "tbl")
	if !g.F.QuotedDDLNames && t.src != t.name {
		t = bare("t1")
	}
	if g.chance(20, "schema") {
		s := g.pick(schemaP, "schema")
		if !g.F.QuotedDDLNames && s.src != s.name {
			s = bare("s1")
		}
		t = ident{s.src + " . " + t.src, s.name + "." + t.name}
	}
	return t
}

func (g *G) ddlColumn() ident {
	c := g.pick(colPool, "ddlcol")
	if !g.F.QuotedDDLNames && c.src != c.name {
		return bare("c9")
	}
	return c
}

func (g *G) colList(n int, label string) ([]Tok, []string) {
	var ts [][]Tok
	var names []string
	for i := 0; i < n; i++ {
		c := g.ddlColumn()
		ts = append(ts, sym(c.src))
		names = append(names, c.name)
	}
	return cat(sym("("), commaJoin(ts), sym(")")), names
}

func (g *G) references() ([]Tok, *ast.ReferenceDefinition) {
	tb := g.pick(tblPool, "reftbl")
	if tb.src != tb.name && !g.F.QuotedDDLNames {
		tb = bare("t2")
	}
	if g.F.DDLExtras && g.chance(25, "refschema") {
		sc := bare("s1")
		if g.F.QuotedDDLNames {
			sc = g.pick(schemaP, "refschemaname")
		}
		tb = ident{sc.src + " . " + tb.src, sc.name + "." + tb.name}
	}
	r := &ast.ReferenceDefinition{Table: tb.name}
	t := cat(g.kw("REFERENCES"), nameToks(tb))
	if g.chance(80, "refcols") {
		ct, cn := g.colList(1+g.intn(2, "nrefcols"), "refcol")
		t = cat(t, ct)
		r.Columns = cn
	}
	if g.chance(30, "ondelete") {
		a := refActions[g.intn(len(refActions), "refaction")]
		t = cat(t, g.kw("ON", "DELETE"), g.kwWords(a))
		r.OnDelete = a
	}
	if g.chance(20, "onupdate") {
		a := refActions[g.intn(len(refActions), "refaction2")]
		t = cat(t, g.kw("ON", "UPDATE"), g.kwWords(a))
		r.OnUpdate = a
	}
	return t, r
}

// kwWords emits a multi-word keyword phrase ("SET NULL") as separate keyword tokens in upper case
// (the tree stores the phrase upper-cased).
func (g *G) kwWords(phrase string) []Tok {
	var out []Tok
	w := ""
	for _, r := range phrase + " " {
		if r == ' ' {
			if w != "" {
				out = append(out, Tok{w, true})
			}
			w = ""
			continue
		}
		w += string(r)
	}
	return out
}

func (g *G) CreateTable() ([]Tok, *ast.CreateTableStatement) {
	g.use("create_table")
	s := &ast.CreateTableStatement{}
	t := g.kw("CREATE")
	if g.chance(15, "temporary") {
		t = cat(t, g.kw("TEMPORARY"))
		s.Temporary = true
	}
	t = cat(t, g.kw("TABLE"))
	if g.chance(25, "ifnotexists") {
		t = cat(t, g.kw("IF", "NOT", "EXISTS"))
		s.IfNotExists = true
	}
	tb := g.plainTable()
	s.Name = tb.name
	t = cat(t, nameToks(tb), sym("("))
	var items [][]Tok
	for i, n := 0, 1+g.intn(4, "ncols"); i < n; i++ {
		c := g.ddlColumn()
		ty := ddlTypes[g.intn(len(ddlTypes), "ddltype")]
		cd := ast.ColumnDef{Name: c.name, Type: ty}
		it := cat(sym(c.src), typeToks(ty))
		for j, m := 0, g.intn(3, "nconstraints"); j < m; j++ {
			nk := 7
			if g.F.MySQL {
				nk = 8
			}
			switch g.intn(nk, "colconstraint") {
			case 7:
				it = cat(it, g.kw("AUTO_INCREMENT"))
				cd.Constraints = append(cd.Constraints, ast.ColumnConstraint{Type: "AUTO_INCREMENT", AutoIncrement: true})
			case 0:
				it = cat(it, g.kw("NOT", "NULL"))
				cd.Constraints = append(cd.Constraints, ast.ColumnConstraint{Type: "NOT NULL"})
			case 1:
				it = cat(it, g.kw("PRIMARY", "KEY"))
				cd.Constraints = append(cd.Constraints, ast.ColumnConstraint{Type: "PRIMARY KEY"})
			case 2:
				it = cat(it, g.kw("UNIQUE"))
				cd.Constraints = append(cd.Constraints, ast.ColumnConstraint{Type: "UNIQUE"})
			case 3:
				v := g.literal()
				it = cat(it, g.kw("DEFAULT"), v.T)
				cd.Constraints = append(cd.Constraints, ast.ColumnConstraint{Type: "DEFAULT", Default: v.N})
			case 4:
				b := g.at(g.Bool(), POr)
				it = cat(it, g.kw("CHECK"), sym("("), b.T, sym(")"))
				cd.Constraints = append(cd.Constraints, ast.ColumnConstraint{Type: "CHECK", Check: b.N})
			case 5:
				rt, rn := g.references()
				it = cat(it, rt)
				cd.Constraints = append(cd.Constraints, ast.ColumnConstraint{Type: "REFERENCES", References: rn})
			default:
				it = cat(it, g.kw("NULL"))
				cd.Constraints = append(cd.Constraints, ast.ColumnConstraint{Type: "NULL"})
			}
		}
		items = append(items, it)
		s.Columns = append(s.Columns, cd)
	}
	for i, n := 0, g.intn(3, "ntableconstraints"); i < n; i++ {
		tc := ast.TableConstraint{}
		var it []Tok
		if g.chance(40, "constraintname") {
			nm := g.pick(objPool, "constraintname")
			it = cat(g.kw("CONSTRAINT"), sym(nm.src))
			tc.Name = nm.name
		}
		switch g.intn(4, "tableconstraint") {
		case 0:
			ct, cn := g.colList(1+g.intn(2, "npk"), "pkcol")
			it = cat(it, g.kw("PRIMARY", "KEY"), ct)
			tc.Type, tc.Columns = "PRIMARY KEY", cn
		case 1:
			ct, cn := g.colList(1+g.intn(2, "nuq"), "uqcol")
			it = cat(it, g.kw("UNIQUE"), ct)
			tc.Type, tc.Columns = "UNIQUE", cn
		case 2:
			ct, cn := g.colList(1+g.intn(2, "nfk"), "fkcol")
			rt, rn := g.references()
			it = cat(it, g.kw("FOREIGN", "KEY"), ct, rt)
			tc.Type, tc.Columns, tc.References = "FOREIGN KEY", cn, rn
		default:
			b := g.at(g.Bool(), POr)
			it = cat(it, g.kw("CHECK"), sym("("), b.T, sym(")"))
			tc.Type, tc.Check = "CHECK", b.N
		}
		items = append(items, it)
		s.Constraints = append(s.Constraints, tc)
	}
	t = cat(t, commaJoin(items), sym(")"))
	if g.F.Partitions && g.chance(45, "partitionby") {
		pt, pb, defs := g.partitioning()
		t = cat(t, pt)
		s.PartitionBy, s.Partitions = pb, defs
	}
	if g.F.MySQL && g.chance(25, "tableoptions") {
		g.use("table_options")
		for i, n := 0, 1+g.intn(2, "ntableoptions"); i < n; i++ {
			// COMMENT '...' is outside the model: the parser rejects a string-literal option value
			name := []string{"ENGINE", "CHARSET", "COLLATE"}[g.intn(3, "tableoption")]
			w := []string{"InnoDB", "utf8mb4", "latin1", "utf8mb4_bin"}[g.intn(4, "tableoptionvalue")]
			v := X{T: sym(w), N: &ast.LiteralValue{Value: w}}
			t = cat(t, sym(name))
			if g.chance(70, "optioneq") {
				t = cat(t, sym("="))
			}
			t = cat(t, v.T)
			s.Options = append(s.Options, ast.TableOption{Name: name, Value: fmt_value(v.N)})
		}
	}
	return t, s
}

func fmt_value(e ast.Expression) string {
	if l, ok := e.(*ast.LiteralValue); ok {
		if sv, ok := l.Value.(string); ok {
			return sv
		}
	}
	return ""
}

// partitioning draws PARTITION BY RANGE|LIST|HASH (cols) [ (PARTITION p VALUES ... , ...) ].
func (g *G) partitioning() ([]Tok, *ast.PartitionBy, []ast.PartitionDefinition) {
	g.use("partition_by")
	kind := []string{"RANGE", "LIST", "HASH"}[g.intn(3, "partitionkind")]
	ct, cn := g.colList(1+g.intn(2, "npartcols"), "partcol")
	t := cat(g.kw("PARTITION", "BY", kind), ct)
	pb := &ast.PartitionBy{Type: kind, Columns: cn}
	if kind == "HASH" || !g.chance(75, "partitiondefs") {
		return t, pb, nil
	}
	g.use("partition_definitions")
	var defs []ast.PartitionDefinition
	var items [][]Tok
	for i, n := 0, 1+g.intn(3, "npartitions"); i < n; i++ {
		nm := []string{"p0", "p1", "p_old", "pmax"}[g.intn(4, "partname")]
		d := ast.PartitionDefinition{Name: nm}
		it := cat(g.kw("PARTITION"), sym(nm), g.kw("VALUES"))
		switch {
		case kind == "LIST":
			ts, ns := g.args(1 + g.intn(3, "npartvalues"))
			it = cat(it, g.kw("IN"), sym("("), commaJoin(ts), sym(")"))
			d.Type, d.InValues = "IN", ns
		case g.chance(25, "partfromto"):
			a, b := g.at(g.Value(), POr), g.at(g.Value(), POr)
			it = cat(it, g.kw("FROM"), sym("("), a.T, sym(")"), g.kw("TO"), sym("("), b.T, sym(")"))
			d.Type, d.From, d.To = "FROM TO", a.N, b.N
		case g.chance(25, "partmaxvalue"):
			d.Type, d.LessThan = "LESS THAN", &ast.Identifier{Name: "MAXVALUE"}
			if g.chance(50, "maxvalueparen") {
				it = cat(it, g.kw("LESS", "THAN"), sym("("), g.kw("MAXVALUE"), sym(")"))
			} else {
				it = cat(it, g.kw("LESS", "THAN", "MAXVALUE"))
			}
		default:
			v := g.at(g.Value(), POr)
			it = cat(it, g.kw("LESS", "THAN"), sym("("), v.T, sym(")"))
			d.Type, d.LessThan = "LESS THAN", v.N
		}
		if g.chance(15, "parttablespace") {
			it = cat(it, g.kw("TABLESPACE"), sym("ts1"))
			d.Tablespace = "ts1"
		}
		items = append(items, it)
		defs = append(defs, d)
	}
	return cat(t, sym("("), commaJoin(items), sym(")")), pb, defs
}

func (g *G) CreateIndex() ([]Tok, *ast.CreateIndexStatement) {
	g.use("create_index")
	s := &ast.CreateIndexStatement{}
	t := g.kw("CREATE")
	if g.chance(30, "unique") {
		t = cat(t, g.kw("UNIQUE"))
		s.Unique = true
	}
	t = cat(t, g.kw("INDEX"))
	if g.chance(25, "ifnotexists") {
		t = cat(t, g.kw("IF", "NOT", "EXISTS"))
		s.IfNotExists = true
	}
	nm := g.pick(objPool, "ixname")
	tb := g.plainTable()
	s.Name, s.Table = nm.name, tb.name
	t = cat(t, sym(nm.src), g.kw("ON"), nameToks(tb))
	if g.chance(25, "using") {
		m := []string{"btree", "hash", "gin"}[g.intn(3, "method")]
		if g.F.Corners && g.chance(20, "quotedmethod") {
			m = "My Method"
			t = cat(t, g.kw("USING"), sym(`"My Method"`))
		} else {
			t = cat(t, g.kw("USING"), sym(m))
		}
		s.Using = m
	}
	var cols [][]Tok
	for i, n := 0, 1+g.intn(3, "nixcols"); i < n; i++ {
		c := g.ddlColumn()
		ic := ast.IndexColumn{Column: c.name}
		it := sym(c.src)
		switch g.intn(4, "ixdir") {
		case 1:
			it = cat(it, g.kw("ASC"))
			ic.Direction = "ASC"
		case 2:
			it = cat(it, g.kw("DESC"))
			ic.Direction = "DESC"
		}
		if g.F.IndexNulls && g.chance(20, "ixnulls") {
			it = cat(it, g.kw("NULLS", "LAST"))
			ic.NullsLast = true
		} else if g.F.DDLExtras && g.chance(15, "ixnullsfirst") {
			// IndexColumn.NullsFirst exists only on trees that record the modifier
			if f := reflect.ValueOf(&ic).Elem().FieldByName("NullsFirst"); f.IsValid() && f.Kind() == reflect.Bool {
				it = cat(it, g.kw("NULLS", "FIRST"))
				f.SetBool(true)
			}
		}
		cols = append(cols, it)
		s.Columns = append(s.Columns, ic)
	}
	t = cat(t, sym("("), commaJoin(cols), sym(")"))
	if g.chance(25, "ixwhere") {
		b := g.at(g.Bool(), POr)
		t = cat(t, g.kw("WHERE"), b.T)
		s.Where = b.N
	}
	return t, s
}

func (g *G) viewQuery() ([]Tok, ast.Statement) {
	g.ForceFrom = true
	defer func() { g.ForceFrom = false }()
	if g.F.DDLExtras && g.chance(20, "viewwith") {
		g.use("view_over_with")
		return g.Query(false) // may start with WITH
	}
	return g.setOpOrSelect(true)
}

func (g *G) CreateView() ([]Tok, *ast.CreateViewStatement) {
	g.use("create_view")
	s := &ast.CreateViewStatement{}
	t := g.kw("CREATE")
	switch g.intn(4, "viewmod") {
	case 1:
		t = cat(t, g.kw("OR", "REPLACE"))
		s.OrReplace = true
	case 2:
		t = cat(t, g.kw("TEMPORARY"))
		s.Temporary = true
	}
	t = cat(t, g.kw("VIEW"))
	if !s.OrReplace && g.chance(20, "ifnotexists") {
		t = cat(t, g.kw("IF", "NOT", "EXISTS"))
		s.IfNotExists = true
	}
	nm := g.plainTable()
	s.Name = nm.name
	t = cat(t, nameToks(nm))
	if g.chance(30, "viewcols") {
		ct, cn := g.colList(1+g.intn(3, "nviewcols"), "viewcol")
		t = cat(t, ct)
		s.Columns = cn
	}
	qt, qn := g.viewQuery()
	s.Query = qn
	t = cat(t, g.kw("AS"), qt)
	if g.F.DDLExtras && g.chance(25, "viewcheckoption") {
		// WITH [CASCADED | LOCAL] CHECK OPTION (the view query always has a FROM clause here)
		g.use("view_check_option")
		switch g.intn(3, "checkoptionkind") {
		case 1:
			t = cat(t, g.kw("WITH", "CASCADED", "CHECK", "OPTION"))
			s.WithOption = "CASCADED CHECK OPTION"
		case 2:
			t = cat(t, g.kw("WITH", "LOCAL", "CHECK", "OPTION"))
			s.WithOption = "LOCAL CHECK OPTION"
		default:
			t = cat(t, g.kw("WITH", "CHECK", "OPTION"))
			s.WithOption = "CHECK OPTION"
		}
	}
	return t, s
}

func (g *G) CreateMatView() ([]Tok, *ast.CreateMaterializedViewStatement) {
	g.use("create_materialized_view")
	s := &ast.CreateMaterializedViewStatement{}
	t := g.kw("CREATE", "MATERIALIZED", "VIEW")
	if g.chance(25, "ifnotexists") {
		t = cat(t, g.kw("IF", "NOT", "EXISTS"))
		s.IfNotExists = true
	}
	nm := g.plainTable()
	s.Name = nm.name
	qt, qn := g.viewQuery()
	s.Query = qn
	t = cat(t, nameToks(nm))
	if g.F.Corners && g.chance(25, "mvtablespace") {
		g.use("matview_tablespace")
		ts := []ident{bare("ts1"), q("my ts")}[g.intn(2, "tablespacename")]
		t = cat(t, g.kw("TABLESPACE"), sym(ts.src))
		s.Tablespace = ts.name
	}
	t = cat(t, g.kw("AS"), qt)
	switch g.intn(4, "withdata") {
	case 1:
		t = cat(t, g.kw("WITH", "DATA"))
		v := true
		s.WithData = &v
	case 2:
		t = cat(t, g.kw("WITH", "NO", "DATA"))
		v := false
		s.WithData = &v
	}
	return t, s
}

func (g *G) Drop() ([]Tok, *ast.DropStatement) {
	g.use("drop")
	kinds := [][]string{{"TABLE"}, {"VIEW"}, {"INDEX"}, {"MATERIALIZED", "VIEW"}}
	k := kinds[g.intn(len(kinds), "dropkind")]
	s := &ast.DropStatement{ObjectType: joinWords(k)}
	t := cat(g.kw("DROP"), g.kw(k...))
	if g.chance(30, "ifexists") {
		t = cat(t, g.kw("IF", "EXISTS"))
		s.IfExists = true
	}
	var names [][]Tok
	for i, n := 0, 1+g.intn(3, "ndrop"); i < n; i++ {
		nm := g.plainTable()
		names = append(names, nameToks(nm))
		s.Names = append(s.Names, nm.name)
	}
	t = cat(t, commaJoin(names))
	switch g.intn(4, "dropcascade") {
	case 1:
		t = cat(t, g.kw("CASCADE"))
		s.CascadeType = "CASCADE"
	case 2:
		t = cat(t, g.kw("RESTRICT"))
		s.CascadeType = "RESTRICT"
	}
	return t, s
}

func joinWords(ws []string) string {
	out := ""
	for i, w := range ws {
		if i > 0 {
			out += " "
		}
		out += w
	}
	return out
}

func (g *G) Truncate() ([]Tok, *ast.TruncateStatement) {
	g.use("truncate")
	s := &ast.TruncateStatement{}
	t := g.kw("TRUNCATE")
	if g.chance(70, "truncatetable") {
		t = cat(t, g.kw("TABLE"))
	}
	var names [][]Tok
	for i, n := 0, 1+g.intn(3, "ntrunc"); i < n; i++ {
		nm := g.plainTable()
		names = append(names, nameToks(nm))
		s.Tables = append(s.Tables, nm.name)
	}
	t = cat(t, commaJoin(names))
	switch g.intn(4, "identity") {
	case 1:
		t = cat(t, g.kw("RESTART", "IDENTITY"))
		s.RestartIdentity = true
	case 2:
		t = cat(t, g.kw("CONTINUE", "IDENTITY"))
		s.ContinueIdentity = true
	}
	switch g.intn(4, "trunccascade") {
	case 1:
		t = cat(t, g.kw("CASCADE"))
		s.CascadeType = "CASCADE"
	case 2:
		t = cat(t, g.kw("RESTRICT"))
		s.CascadeType = "RESTRICT"
	}
	return t, s
}

func (g *G) Refresh() ([]Tok, *ast.RefreshMaterializedViewStatement) {
	g.use("refresh_materialized_view")
	s := &ast.RefreshMaterializedViewStatement{}
	t := g.kw("REFRESH", "MATERIALIZED", "VIEW")
	if g.chance(30, "concurrently") {
		t = cat(t, g.kw("CONCURRENTLY"))
		s.Concurrently = true
	}
	nm := g.plainTable()
	s.Name = nm.name
	t = cat(t, nameToks(nm))
	switch g.intn(4, "withdata") {
	case 1:
		t = cat(t, g.kw("WITH", "DATA"))
		v := true
		s.WithData = &v
	case 2:
		t = cat(t, g.kw("WITH", "NO", "DATA"))
		v := false
		s.WithData = &v
	}
	return t, s
}

// Merge draws MERGE INTO target [AS a] USING source [AS b] ON cond WHEN ... THEN ...
func (g *G) Merge() ([]Tok, *ast.MergeStatement) {
	g.use("merge")
	s := &ast.MergeStatement{}
	tb := g.tableName()
	s.TargetTable = ast.TableReference{Name: tb.name}
	t := cat(g.kw("MERGE", "INTO"), nameToks(tb))
	alias := func(label string) ([]Tok, string) {
		switch g.intn(3, label) {
		case 1:
			a := g.pick(aliasPool, label+"name")
			g.Names.Aliases[a.name] = true
			return cat(g.kw("AS"), sym(a.src)), a.name
		case 2:
			a := g.pick(aliasPool, label+"name")
			g.Names.Aliases[a.name] = true
			return sym(a.src), a.name
		}
		return nil, ""
	}
	at, an := alias("targetalias")
	t = cat(t, at)
	s.TargetAlias = an
	if g.F.DDLExtras && g.chance(25, "mergesubquery") {
		g.use("merge_subquery_source")
		g.ForceFrom = true
		qt, qn := g.Select(true, true)
		g.ForceFrom = false
		s.SourceTable = ast.TableReference{Subquery: qn}
		a := g.pick(aliasPool, "sourcealiasname")
		g.Names.Aliases[a.name] = true
		t = cat(t, g.kw("USING"), sym("("), qt, sym(")"))
		if g.chance(50, "subqueryas") {
			t = cat(t, g.kw("AS"))
		}
		t = cat(t, sym(a.src))
		s.SourceAlias = a.name
	} else {
		src := g.tableName()
		s.SourceTable = ast.TableReference{Name: src.name}
		t = cat(t, g.kw("USING"), nameToks(src))
		bt, bn := alias("sourcealias")
		t = cat(t, bt)
		s.SourceAlias = bn
	}
	on := g.at(g.Bool(), POr)
	t = cat(t, g.kw("ON"), on.T)
	s.OnCondition = on.N
	for i, n := 0, 1+g.intn(3, "nwhen"); i < n; i++ {
		w := &ast.MergeWhenClause{}
		wt := g.kw("WHEN")
		kind := g.intn(3, "whenkind")
		switch kind {
		case 0:
			wt = cat(wt, g.kw("MATCHED"))
			w.Type = "MATCHED"
		case 1:
			wt = cat(wt, g.kw("NOT", "MATCHED"))
			w.Type = "NOT_MATCHED"
		default:
			wt = cat(wt, g.kw("NOT", "MATCHED", "BY", "SOURCE"))
			w.Type = "NOT_MATCHED_BY_SOURCE"
		}
		if g.chance(35, "whencond") {
			c := g.at(g.Bool(), PNot) // AND binds tighter than the following THEN only if no OR leaks
			wt = cat(wt, g.kw("AND"), c.T)
			w.Condition = c.N
		}
		wt = cat(wt, g.kw("THEN"))
		a := &ast.MergeAction{}
		switch {
		case kind == 1: // NOT MATCHED -> INSERT
			a.ActionType = "INSERT"
			wt = cat(wt, g.kw("INSERT"))
			n := 1 + g.intn(3, "ninsvals")
			if g.chance(70, "mergeinscols") {
				var cs [][]Tok
				for j := 0; j < n; j++ {
					c := g.pick(colPool, "mergeinscol")
					g.Names.Columns[c.name] = true
					cs = append(cs, sym(c.src))
					a.Columns = append(a.Columns, c.name)
				}
				wt = cat(wt, sym("("), commaJoin(cs), sym(")"))
			}
			vt, vn := g.args(n)
			wt = cat(wt, g.kw("VALUES"), sym("("), commaJoin(vt), sym(")"))
			a.Values = vn
		case g.chance(35, "mergedelete"):
			a.ActionType = "DELETE"
			wt = cat(wt, g.kw("DELETE"))
		default:
			a.ActionType = "UPDATE"
			wt = cat(wt, g.kw("UPDATE", "SET"))
			var sets [][]Tok
			for j, m := 0, 1+g.intn(2, "nmergeset"); j < m; j++ {
				c := g.pick(colPool, "mergesetcol")
				g.Names.Columns[c.name] = true
				v := g.at(g.Value(), POr)
				sets = append(sets, cat(sym(c.src, "="), v.T))
				a.SetClauses = append(a.SetClauses, ast.SetClause{Column: c.name, Value: v.N})
			}
			wt = cat(wt, commaJoin(sets))
		}
		w.Action = a
		t = cat(t, wt)
		s.WhenClauses = append(s.WhenClauses, w)
	}
	return t, s
}

// Alter draws ALTER TABLE with one operation (the forms the AST models with their own fields).
func (g *G) Alter() ([]Tok, *ast.AlterStatement) {
	g.use("alter_table")
	tb := bare("t1")
	if g.F.QuotedDDLNames {
		tb = g.pick(tblPool, "altertbl")
	}
	if g.F.AlterQualified && g.chance(25, "alterschema") {
		tb = ident{"s1 . " + tb.src, "s1." + tb.name}
	}
	s := &ast.AlterStatement{Type: ast.AlterTypeTable, Name: tb.name}
	op := &ast.AlterTableOperation{}
	t := cat(g.kw("ALTER", "TABLE"), nameToks(tb))
	switch g.intn(6, "alterop") {
	case 0:
		c := g.ddlColumn()
		ty := ddlTypes[g.intn(len(ddlTypes), "ddltype")]
		cd := &ast.ColumnDef{Name: c.name, Type: ty}
		t = cat(t, g.kw("ADD", "COLUMN"), sym(c.src), typeToks(ty))
		if g.chance(40, "addnotnull") {
			t = cat(t, g.kw("NOT", "NULL"))
			cd.Constraints = append(cd.Constraints, ast.ColumnConstraint{Type: "NOT NULL"})
		}
		op.Type, op.ColumnDef = ast.AddColumn, cd
	case 1:
		c := g.ddlColumn()
		t = cat(t, g.kw("DROP", "COLUMN"), sym(c.src))
		op.Type, op.ColumnName = ast.DropColumn, &ast.Ident{Name: c.name}
		if g.chance(30, "dropcascade") {
			t = cat(t, g.kw("CASCADE"))
			op.CascadeDrops = true
		}
	case 2:
		n := bare("t_renamed")
		t = cat(t, g.kw("RENAME", "TO"), sym(n.src))
		op.Type, op.NewTableName = ast.RenameTable, ast.ObjectName{Name: n.name}
	case 3:
		a, b := g.ddlColumn(), g.ddlColumn()
		t = cat(t, g.kw("RENAME", "COLUMN"), sym(a.src), g.kw("TO"), sym(b.src))
		op.Type, op.ColumnName, op.NewColumnName = ast.RenameColumn, &ast.Ident{Name: a.name}, &ast.Ident{Name: b.name}
	case 4:
		nm := g.pick(objPool, "constraintname")
		ct, cn := g.colList(1+g.intn(2, "nuq"), "uqcol")
		kind := "UNIQUE"
		kt := g.kw("UNIQUE")
		if g.chance(40, "alterpk") {
			kind, kt = "PRIMARY KEY", g.kw("PRIMARY", "KEY")
		}
		t = cat(t, g.kw("ADD", "CONSTRAINT"), sym(nm.src), kt, ct)
		op.Type, op.Constraint = ast.AddConstraint, &ast.TableConstraint{Name: nm.name, Type: kind, Columns: cn}
	default:
		nm := g.pick(objPool, "constraintname")
		t = cat(t, g.kw("DROP", "CONSTRAINT"), sym(nm.src))
		op.Type, op.ConstraintName = ast.DropConstraint, &ast.Ident{Name: nm.name}
	}
	s.Operation = op
	return t, s
}
