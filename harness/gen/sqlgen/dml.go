package sqlgen

import (
	"github.com/ajitpratap0/GoSQLX/pkg/sql/ast"
)

func (g *G) returning() ([]Tok, []ast.Expression) {
	if g.F.NoReturning || !g.chance(25, "returning") {
		return nil, nil
	}
	g.use("returning")
	if g.chance(30, "retstar") {
		return cat(g.kw("RETURNING"), sym("*")), []ast.Expression{&ast.Identifier{Name: "*"}}
	}
	ts, ns := g.args(1 + g.intn(2, "nret"))
	if g.F.ReturningAlias && g.chance(30, "retalias") {
		// RETURNING expr AS name
		g.use("returning_alias")
		a := g.pick(aliasPool, "retaliasname")
		g.Names.Aliases[a.name] = true
		i := len(ts) - 1
		ts[i] = cat(ts[i], g.kw("AS"), sym(a.src))
		ns[i] = &ast.AliasedExpression{Expr: ns[i], Alias: a.name}
	}
	return cat(g.kw("RETURNING"), commaJoin(ts)), ns
}

func (g *G) Insert() ([]Tok, *ast.InsertStatement) {
	g.use("insert")
	tb := g.tableName()
	s := &ast.InsertStatement{TableName: tb.name}
	t := cat(g.kw("INSERT", "INTO"), nameToks(tb))
	ncols := 0
	if g.chance(70, "inscols") {
		ncols = 1 + g.intn(3, "ninscols")
		var cs [][]Tok
		for i := 0; i < ncols; i++ {
			c := g.pick(colPool, "inscol")
			g.Names.Columns[c.name] = true
			cs = append(cs, sym(c.src))
			s.Columns = append(s.Columns, &ast.Identifier{Name: c.name})
		}
		t = cat(t, sym("("), commaJoin(cs), sym(")"))
	}
	if !g.F.Flat && g.chance(30, "insselect") {
		g.use("insert_select")
		g.ForceFrom = true
		qt, qn := g.setOpOrSelect(true)
		g.ForceFrom = false
		t = cat(t, qt)
		s.Query = qn.(ast.QueryExpression)
	} else {
		nrows := 1 + g.intn(3, "nrows")
		w := ncols
		if w == 0 {
			w = 1 + g.intn(3, "rowwidth")
		}
		var rows [][]Tok
		for r := 0; r < nrows; r++ {
			ts, ns := g.args(w)
			rows = append(rows, cat(sym("("), commaJoin(ts), sym(")")))
			s.Values = append(s.Values, ns)
		}
		t = cat(t, g.kw("VALUES"), commaJoin(rows))
		if nrows > 1 {
			g.use("multi_row_values")
		}
	}
	if !g.F.NoOnConflict && !g.F.Flat && g.chance(25, "onconflict") {
		g.use("on_conflict")
		oc := &ast.OnConflict{}
		t = cat(t, g.kw("ON", "CONFLICT"))
		if g.chance(70, "octarget") {
			c := g.pick(colPool, "occol")
			g.Names.Columns[c.name] = true
			t = cat(t, sym("(", c.src, ")"))
			oc.Target = []ast.Expression{&ast.Identifier{Name: c.name}}
		} else if g.F.Corners && g.chance(50, "onconstraint") {
			g.use("on_conflict_on_constraint")
			cn := []ident{bare("uq1"), q("my c")}[g.intn(2, "constraintname")]
			t = cat(t, g.kw("ON", "CONSTRAINT"), sym(cn.src))
			oc.Constraint = cn.name
		}
		if g.chance(40, "donothing") {
			t = cat(t, g.kw("DO", "NOTHING"))
			oc.Action.DoNothing = true
		} else {
			t = cat(t, g.kw("DO", "UPDATE", "SET"))
			n := 1 + g.intn(2, "nocset")
			var sets [][]Tok
			for i := 0; i < n; i++ {
				c := g.pick(colPool, "ocsetcol")
				g.Names.Columns[c.name] = true
				v := g.at(g.Value(), POr)
				sets = append(sets, cat(sym(c.src, "="), v.T))
				oc.Action.DoUpdate = append(oc.Action.DoUpdate, ast.UpdateExpression{Column: &ast.Identifier{Name: c.name}, Value: v.N})
			}
			t = cat(t, commaJoin(sets))
			if g.chance(30, "ocwhere") {
				c := g.at(g.Bool(), POr)
				t = cat(t, g.kw("WHERE"), c.T)
				oc.Action.Where = c.N
			}
		}
		s.OnConflict = oc
	} else if g.F.MySQL && !g.F.Flat && g.chance(15, "onduplicate") {
		g.use("on_duplicate_key")
		up := &ast.UpsertClause{}
		var sets [][]Tok
		for i, n := 0, 1+g.intn(2, "nodkset"); i < n; i++ {
			c := g.pick(colPool, "odkcol")
			g.Names.Columns[c.name] = true
			v := g.at(g.Value(), POr)
			sets = append(sets, cat(sym(c.src, "="), v.T))
			up.Updates = append(up.Updates, ast.UpdateExpression{Column: &ast.Identifier{Name: c.name}, Value: v.N})
		}
		t = cat(t, g.kw("ON", "DUPLICATE", "KEY", "UPDATE"), commaJoin(sets))
		s.OnDuplicateKey = up
	}
	rt, rn := g.returning()
	t = cat(t, rt)
	s.Returning = rn
	return t, s
}

func (g *G) Update() ([]Tok, *ast.UpdateStatement) {
	g.use("update")
	tb := g.tableName()
	s := &ast.UpdateStatement{TableName: tb.name}
	t := cat(g.kw("UPDATE"), nameToks(tb), g.kw("SET"))
	n := 1 + g.intn(3, "nset")
	var sets [][]Tok
	for i := 0; i < n; i++ {
		c := g.pick(colPool, "setcol")
		g.Names.Columns[c.name] = true
		v := g.at(g.Value(), POr)
		sets = append(sets, cat(sym(c.src, "="), v.T))
		s.Assignments = append(s.Assignments, ast.UpdateExpression{Column: &ast.Identifier{Name: c.name}, Value: v.N})
	}
	t = cat(t, commaJoin(sets))
	if g.chance(70, "updwhere") {
		c := g.at(g.Bool(), POr)
		t = cat(t, g.kw("WHERE"), c.T)
		s.Where = c.N
	}
	rt, rn := g.returning()
	t = cat(t, rt)
	s.Returning = rn
	return t, s
}

func (g *G) Delete() ([]Tok, *ast.DeleteStatement) {
	g.use("delete")
	tb := g.tableName()
	s := &ast.DeleteStatement{TableName: tb.name}
	t := cat(g.kw("DELETE", "FROM"), nameToks(tb))
	if g.chance(75, "delwhere") {
		c := g.at(g.Bool(), POr)
		t = cat(t, g.kw("WHERE"), c.T)
		s.Where = c.N
	}
	rt, rn := g.returning()
	t = cat(t, rt)
	s.Returning = rn
	return t, s
}

// Replace draws MySQL REPLACE INTO t [(cols)] VALUES rows.
func (g *G) Replace() ([]Tok, *ast.ReplaceStatement) {
	g.use("replace")
	tb := g.tableName()
	s := &ast.ReplaceStatement{TableName: tb.name}
	t := cat(g.kw("REPLACE", "INTO"), nameToks(tb))
	w := 0
	if g.chance(70, "repcols") {
		w = 1 + g.intn(3, "nrepcols")
		var cs [][]Tok
		for i := 0; i < w; i++ {
			c := g.pick(colPool, "repcol")
			g.Names.Columns[c.name] = true
			cs = append(cs, sym(c.src))
			s.Columns = append(s.Columns, &ast.Identifier{Name: c.name})
		}
		t = cat(t, sym("("), commaJoin(cs), sym(")"))
	} else {
		w = 1 + g.intn(3, "reprowwidth")
	}
	var rows [][]Tok
	for r, n := 0, 1+g.intn(3, "nreprows"); r < n; r++ {
		ts, ns := g.args(w)
		rows = append(rows, cat(sym("("), commaJoin(ts), sym(")")))
		s.Values = append(s.Values, ns)
	}
	return cat(t, g.kw("VALUES"), commaJoin(rows)), s
}

// Show draws the MySQL SHOW forms the parser's own documentation lists; Describe DESCRIBE t.
func (g *G) Show() ([]Tok, *ast.ShowStatement) {
	g.use("show")
	s := &ast.ShowStatement{}
	t := g.kw("SHOW")
	switch g.intn(7, "showkind") {
	case 0:
		t = cat(t, g.kw("TABLES"))
		s.ShowType = "TABLES"
		if g.chance(30, "showfrom") {
			d := g.pick(schemaP[:2], "showdb")
			t = cat(t, g.kw("FROM"), sym(d.src))
			s.From = d.name
		}
	case 1:
		t = cat(t, g.kw("DATABASES"))
		s.ShowType = "DATABASES"
	case 2:
		tb := g.plainTable()
		t = cat(t, g.kw("CREATE", "TABLE"), nameToks(tb))
		s.ShowType, s.ObjectName = "CREATE TABLE", tb.name
	case 3:
		tb := g.plainTable()
		t = cat(t, g.kw("COLUMNS", "FROM"), nameToks(tb))
		s.ShowType, s.ObjectName = "COLUMNS", tb.name
	case 4:
		w := []string{"INDEX", "INDEXES", "KEYS"}[g.intn(3, "showindexword")]
		tb := g.plainTable()
		t = cat(t, g.kw(w, "FROM"), nameToks(tb))
		s.ShowType, s.ObjectName = w, tb.name
	case 5:
		t = cat(t, g.kw("STATUS"))
		s.ShowType = "STATUS"
	default:
		t = cat(t, g.kw("VARIABLES"))
		s.ShowType = "VARIABLES"
	}
	return t, s
}

func (g *G) Describe() ([]Tok, *ast.DescribeStatement) {
	g.use("describe")
	tb := g.plainTable()
	return cat(g.kw("DESCRIBE"), nameToks(tb)), &ast.DescribeStatement{TableName: tb.name}
}

// Statement draws one statement of the model grammar.
func Statement(g *G) Stmt {
	var t []Tok
	var n ast.Statement
	kind := ""
	k := g.intn(20, "stmtkind")
	if g.F.Flat && k >= 15 && k < 18 {
		k = 0 // UPDATE has SET after its first token
	}
	if (g.F.DDL || g.F.Merge || g.F.MySQL) && !g.F.Flat && g.chance(30, "ddl_or_merge") {
		var kinds []string
		if g.F.Merge {
			kinds = append(kinds, "merge", "merge")
		}
		if g.F.MySQL {
			kinds = append(kinds, "replace")
			if !g.F.NoShowDescribe {
				kinds = append(kinds, "show", "describe")
			}
		}
		if g.F.DDL {
			kinds = append(kinds, "create_table", "create_table", "create_index", "create_view", "create_materialized_view", "drop", "truncate", "refresh")
			if g.F.Alter {
				kinds = append(kinds, "alter_table")
			}
		}
		kind = kinds[g.intn(len(kinds), "ddlkind")]
		switch kind {
		case "merge":
			t, n = g.Merge()
		case "create_table":
			t, n = g.CreateTable()
		case "create_index":
			t, n = g.CreateIndex()
		case "create_view":
			t, n = g.CreateView()
		case "create_materialized_view":
			t, n = g.CreateMatView()
		case "drop":
			t, n = g.Drop()
		case "truncate":
			t, n = g.Truncate()
		case "alter_table":
			t, n = g.Alter()
		case "replace":
			t, n = g.Replace()
		case "show":
			t, n = g.Show()
		case "describe":
			t, n = g.Describe()
		default:
			t, n = g.Refresh()
		}
		return Stmt{Toks: t, Node: n, Kind: kind, Names: g.Names, Stats: g.Stats}
	}
	switch {
	case k < 12:
		t, n = g.Query(false)
		kind = "query"
	case k < 15:
		var with *ast.WithClause
		var wt []Tok
		if !g.F.NoDMLWith && g.chance(10, "dmlwith") {
			wt, with = g.withClause()
		}
		it, in := g.Insert()
		in.With = with
		t, n, kind = cat(wt, it), in, "insert"
	case k < 18:
		var with *ast.WithClause
		var wt []Tok
		if !g.F.NoDMLWith && g.chance(10, "dmlwith") {
			wt, with = g.withClause()
		}
		ut, un := g.Update()
		un.With = with
		t, n, kind = cat(wt, ut), un, "update"
	default:
		var with *ast.WithClause
		var wt []Tok
		if !g.F.NoDMLWith && g.chance(10, "dmlwith") {
			wt, with = g.withClause()
		}
		dt, dn := g.Delete()
		dn.With = with
		t, n, kind = cat(wt, dt), dn, "delete"
	}
	return Stmt{Toks: t, Node: n, Kind: kind, Names: g.Names, Stats: g.Stats}
}
