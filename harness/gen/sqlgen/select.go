package sqlgen

import (
	"fmt"
	"strconv"

	"github.com/ajitpratap0/GoSQLX/pkg/sql/ast"
	"pgregory.net/rapid"
)

// Query draws SELECT | set operation, optionally under WITH.  sub = used as a
// sub-query (kept small).
func (g *G) Query(sub bool) ([]Tok, ast.Statement) {
	if g.depth >= g.F.MaxDepth+1 {
		t, n := g.simpleSelect()
		return t, n
	}
	defer g.deeper()()
	withPct := 12
	if sub {
		withPct = 5
	}
	var wt []Tok
	var with *ast.WithClause
	if !g.F.Flat && g.chance(withPct, "with") {
		wt, with = g.withClause()
	}
	t, n := g.setOpOrSelect(sub)
	if with != nil {
		// convention: WITH is attached to the main SELECT; for a set operation to its leftmost SELECT
		leftmost(n).With = with
		t = cat(wt, t)
	}
	return t, n
}

func leftmost(s ast.Statement) *ast.SelectStatement {
	for {
		switch v := s.(type) {
		case *ast.SelectStatement:
			return v
		case *ast.SetOperation:
			s = v.Left
		default:
			panic("leftmost: unexpected node")
		}
	}
}

func (g *G) setOpOrSelect(sub bool) ([]Tok, ast.Statement) {
	if g.F.Flat || !g.chance(18, "setop") {
		t, n := g.Select(sub, true)
		return t, n
	}
	g.use("set_operation")
	n := 1 + g.intn(3, "nsetop")
	t, first := g.Select(true, false)
	// INTERSECT binds tighter than UNION / EXCEPT (SQL-92 7.10): the chain is a left-associative
	// sequence of UNION / EXCEPT over terms, each term a left-associative INTERSECT chain. Without
	// Features.IntersectPrecedence an INTERSECT is only drawn while no UNION / EXCEPT has been,
	// where both readings give the same tree (the listed finding C03-intersect-precedence).
	var cur ast.Statement          // the UNION / EXCEPT chain so far (nil while the first term is being built)
	var term ast.Statement = first // the INTERSECT chain being built
	var pendOp string
	var pendAll bool
	intersectOK := true
	closeTerm := func() {
		if cur == nil {
			cur = term
		} else {
			cur = &ast.SetOperation{Left: cur, Operator: pendOp, All: pendAll, Right: term}
		}
	}
	for i := 0; i < n; i++ {
		ops := []string{"UNION", "EXCEPT"}
		if intersectOK || g.F.IntersectPrecedence {
			ops = append(ops, "INTERSECT")
		}
		op := rapid.SampledFrom(ops).Draw(g.T, "setopkind")
		if op != "INTERSECT" {
			intersectOK = false
		}
		sp := g.kwText(op)
		t = cat(t, []Tok{{sp, true}})
		all := g.chance(35, "all")
		if all {
			t = cat(t, g.kw("ALL"))
		}
		rt, rn := g.Select(true, false)
		t = cat(t, rt)
		if op == "INTERSECT" {
			if cur != nil {
				g.use("intersect_after_union_or_except")
			}
			term = &ast.SetOperation{Left: term, Operator: sp, All: all, Right: rn}
			continue
		}
		closeTerm()
		pendOp, pendAll, term = sp, all, rn
	}
	closeTerm()
	if n >= 2 {
		g.use("set_operation_chain")
	}
	return t, cur
}

func (g *G) withClause() ([]Tok, *ast.WithClause) {
	g.use("with")
	w := &ast.WithClause{}
	t := g.kw("WITH")
	if g.chance(25, "recursive") {
		t = cat(t, g.kw("RECURSIVE"))
		w.Recursive = true
	}
	n := 1 + g.intn(2, "nctes")
	var items [][]Tok
	for i := 0; i < n; i++ {
		name := g.pick(ctePool, "ctename")
		g.Names.CTEs[name.name] = true
		cte := &ast.CommonTableExpr{Name: name.name}
		it := sym(name.src)
		if g.chance(30, "ctecols") {
			k := 1 + g.intn(2, "nctecols")
			var cs [][]Tok
			for j := 0; j < k; j++ {
				c := g.pick(colPool, "ctecol")
				g.Names.MaybeColumns[c.name] = true
				cs = append(cs, sym(c.src))
				cte.Columns = append(cte.Columns, c.name)
			}
			it = cat(it, sym("("), commaJoin(cs), sym(")"))
		}
		it = cat(it, g.kw("AS"))
		mk := g.intn(6, "materialized")
		if g.F.NoMaterialized {
			mk = 0
		}
		switch mk {
		case 4:
			it = cat(it, g.kw("MATERIALIZED"))
			v := true
			cte.Materialized = &v
		case 5:
			it = cat(it, g.kw("NOT", "MATERIALIZED"))
			v := false
			cte.Materialized = &v
		}
		qt, qn := g.Query(true)
		it = cat(it, sym("("), qt, sym(")"))
		cte.Statement = qn
		items = append(items, it)
		w.CTEs = append(w.CTEs, cte)
	}
	return cat(t, commaJoin(items)), w
}

func (g *G) simpleSelect() ([]Tok, *ast.SelectStatement) {
	c := g.colRef()
	tb := g.tableName()
	s := &ast.SelectStatement{Columns: []ast.Expression{c.N}, From: []ast.TableReference{{Name: tb.name}}, TableName: tb.name}
	return cat(g.kw("SELECT"), c.T, g.kw("FROM"), nameToks(tb)), s
}

func (g *G) tableName() ident {
	t := g.pick(tblPool, "tbl")
	if g.chance(20, "schema") {
		s := g.pick(schemaP, "schema")
		t = ident{s.src + " . " + t.src, s.name + "." + t.name}
	}
	g.Names.Tables[t.name] = true
	return t
}

func nameToks(i ident) []Tok {
	// qualified names were joined with " . " so each part is a token
	var out []Tok
	cur := ""
	inQ := false
	for _, r := range i.src {
		if r == '"' {
			inQ = !inQ
		}
		if r == ' ' && !inQ {
			if cur != "" {
				out = append(out, Tok{cur, false})
				cur = ""
			}
			continue
		}
		cur += string(r)
	}
	if cur != "" {
		out = append(out, Tok{cur, false})
	}
	return out
}

func (g *G) alias(pct int) ([]Tok, string) {
	if !g.chance(pct, "hasalias") {
		return nil, ""
	}
	a := g.pick(aliasPool, "alias")
	g.Names.Aliases[a.name] = true
	if g.chance(50, "as") {
		return cat(g.kw("AS"), sym(a.src)), a.name
	}
	return sym(a.src), a.name
}

func (g *G) fromItem() ([]Tok, ast.TableReference) {
	var t []Tok
	var ref ast.TableReference
	lateral := false
	if !g.F.Flat && g.depth < g.F.MaxDepth && g.chance(20, "derived") {
		g.use("derived_table")
		if g.chance(25, "lateral") {
			lateral = true
			t = g.kw("LATERAL")
		}
		qt, qn := g.Select(true, true) // derived tables take a plain SELECT (set operations there are a separate feature)
		t = cat(t, sym("("), qt, sym(")"))
		ref = ast.TableReference{Subquery: qn, Lateral: lateral}
		at, an := g.alias(100)
		t = cat(t, at)
		ref.Alias = an
		return t, ref
	}
	tb := g.tableName()
	t = nameToks(tb)
	ref = ast.TableReference{Name: tb.name}
	at, an := g.alias(40)
	t = cat(t, at)
	ref.Alias = an
	return t, ref
}

var joinKinds = []struct {
	words []string
	typ   string
	cond  bool
}{
	{[]string{"JOIN"}, "INNER", true},
	{[]string{"INNER", "JOIN"}, "INNER", true},
	{[]string{"LEFT", "JOIN"}, "LEFT", true},
	{[]string{"LEFT", "OUTER", "JOIN"}, "LEFT", true},
	{[]string{"RIGHT", "JOIN"}, "RIGHT", true},
	{[]string{"RIGHT", "OUTER", "JOIN"}, "RIGHT", true},
	{[]string{"FULL", "JOIN"}, "FULL", true},
	{[]string{"FULL", "OUTER", "JOIN"}, "FULL", true},
	{[]string{"CROSS", "JOIN"}, "CROSS", false},
	{[]string{"NATURAL", "JOIN"}, "NATURAL INNER", false},
	{[]string{"NATURAL", "LEFT", "JOIN"}, "NATURAL LEFT", false},
}

func (g *G) joinWords(ws []string) []Tok {
	if g.F.LowerCompound {
		return g.kw(ws...)
	}
	// finding active: compound join keywords only in upper case
	var out []Tok
	for _, w := range ws {
		out = append(out, Tok{w, false})
	}
	return out
}

// Select draws one SELECT.  small = fewer clauses; tail = ORDER BY/LIMIT/... allowed.
func (g *G) Select(small, tail bool) ([]Tok, *ast.SelectStatement) {
	defer g.deeper()()
	s := &ast.SelectStatement{}
	var selAliases []ident // aliases given to select items of this SELECT
	t := g.kw("SELECT")
	switch g.intn(10, "distinct") {
	case 7:
		t = cat(t, g.kw("DISTINCT"))
		s.Distinct = true
		g.use("distinct")
	case 8:
		if g.F.NoDistinctOn {
			break
		}
		g.use("distinct_on")
		ts, ns := g.args(1 + g.intn(2, "ndon"))
		t = cat(t, g.kw("DISTINCT", "ON"), sym("("), commaJoin(ts), sym(")"))
		s.Distinct = true
		s.DistinctOnColumns = ns
	case 9:
		t = cat(t, g.kw("ALL"))
	}
	// select list
	ncols := 1 + g.intn(4, "ncols")
	if small {
		ncols = 1 + g.intn(2, "ncols_small")
	}
	var items [][]Tok
	for i := 0; i < ncols; i++ {
		k := g.intn(12, "itemkind")
		switch {
		case k == 0:
			items = append(items, sym("*"))
			s.Columns = append(s.Columns, &ast.Identifier{Name: "*"})
		case k == 1:
			tb := g.pick(tblPool[:4], "startbl")
			items = append(items, sym(tb.src, ".", "*"))
			s.Columns = append(s.Columns, &ast.Identifier{Table: tb.name, Name: "*"})
		default:
			var e X
			if k == 2 {
				e = g.at(g.Bool(), POr)
			} else {
				e = g.at(g.Value(), POr)
			}
			it := e.T
			var n ast.Expression = e.N
			if g.chance(35, "colalias") {
				a := g.pick(aliasPool, "calias")
				g.Names.Aliases[a.name] = true
				selAliases = append(selAliases, a)
				_, plain := e.N.(*ast.Identifier)
				if plain || g.chance(60, "colas") {
					it = cat(it, g.kw("AS"), sym(a.src))
				} else {
					g.use("implicit_column_alias")
					it = cat(it, sym(a.src))
				}
				n = &ast.AliasedExpression{Expr: e.N, Alias: a.name}
			}
			items = append(items, it)
			s.Columns = append(s.Columns, n)
		}
	}
	t = cat(t, commaJoin(items))
	// FROM
	if g.chance(92, "hasfrom") || g.ForceFrom {
		t = cat(t, g.kw("FROM"))
		nfrom := 1
		if g.chance(20, "multifrom") {
			nfrom = 2 + g.intn(2, "nfrom")
			g.use("from_list")
		}
		var fitems [][]Tok
		for i := 0; i < nfrom; i++ {
			ft, fr := g.fromItem()
			fitems = append(fitems, ft)
			s.From = append(s.From, fr)
		}
		t = cat(t, commaJoin(fitems))
		s.TableName = s.From[0].Name
		if nfrom == 1 && g.chance(35, "hasjoin") {
			nj := 1 + g.intn(3, "njoins")
			for j := 0; j < nj; j++ {
				g.use("join")
				jk := joinKinds[g.intn(len(joinKinds), "joinkind")]
				t = cat(t, g.joinWords(jk.words))
				var right ast.TableReference
				if !g.F.Flat && g.depth < g.F.MaxDepth && g.chance(15, "joinderived") {
					g.use("join_derived")
					lat := g.chance(30, "joinlateral")
					if lat {
						t = cat(t, g.kw("LATERAL"))
					}
					qt, qn := g.Select(true, true)
					t = cat(t, sym("("), qt, sym(")"))
					right = ast.TableReference{Subquery: qn, Lateral: lat}
					at, an := g.alias(100)
					t = cat(t, at)
					right.Alias = an
				} else {
					tb := g.tableName()
					t = cat(t, nameToks(tb))
					right = ast.TableReference{Name: tb.name}
					at, an := g.alias(50)
					t = cat(t, at)
					right.Alias = an
				}
				jc := ast.JoinClause{Type: jk.typ, Right: right}
				if j == 0 {
					jc.Left = s.From[0]
				} else {
					jc.Left = ast.TableReference{Name: fmt.Sprintf("(%s_with_%d_joins)", s.From[0].Name, j)}
				}
				if jk.cond {
					if g.F.UsingJoin && g.chance(30, "using") {
						g.use("join_using")
						k := 1 + g.intn(2, "nusing")
						var cs [][]Tok
						var ids []ast.Expression
						for u := 0; u < k; u++ {
							c := g.pick(colPool, "usingcol")
							g.Names.Columns[c.name] = true
							cs = append(cs, sym(c.src))
							ids = append(ids, &ast.Identifier{Name: c.name})
						}
						t = cat(t, g.kw("USING"), sym("("), commaJoin(cs), sym(")"))
						if k == 1 {
							jc.Condition = ids[0]
						} else {
							jc.Condition = &ast.ListExpression{Values: ids}
						}
					} else {
						c := g.at(g.Bool(), POr)
						t = cat(t, g.kw("ON"), c.T)
						jc.Condition = c.N
					}
				}
				s.Joins = append(s.Joins, jc)
			}
		}
		if g.chance(75, "where") {
			g.use("where")
			c := g.at(g.Bool(), POr)
			t = cat(t, g.kw("WHERE"), c.T)
			s.Where = c.N
		}
		if g.chance(25, "groupby") {
			g.use("group_by")
			t = cat(t, g.kw("GROUP", "BY"))
			ng := 1 + g.intn(2, "ngroup")
			var gs [][]Tok
			for i := 0; i < ng; i++ {
				gk := g.intn(8, "groupkind")
				if g.F.NoGroupingOps {
					gk = 0
				}
				switch gk {
				case 5:
					g.use("rollup")
					ts, ns := g.args(1 + g.intn(2, "nroll"))
					gs = append(gs, cat(g.kw("ROLLUP"), sym("("), commaJoin(ts), sym(")")))
					s.GroupBy = append(s.GroupBy, &ast.RollupExpression{Expressions: ns})
				case 6:
					g.use("cube")
					ts, ns := g.args(1 + g.intn(2, "ncube"))
					gs = append(gs, cat(g.kw("CUBE"), sym("("), commaJoin(ts), sym(")")))
					s.GroupBy = append(s.GroupBy, &ast.CubeExpression{Expressions: ns})
				case 7:
					g.use("grouping_sets")
					nsets := 1 + g.intn(3, "nsets")
					var sets [][]Tok
					ge := &ast.GroupingSetsExpression{}
					for k := 0; k < nsets; k++ {
						ts, ns := g.args(g.intn(3, "setsize"))
						sets = append(sets, cat(sym("("), commaJoin(ts), sym(")")))
						if ns == nil {
							ns = []ast.Expression{}
						}
						ge.Sets = append(ge.Sets, ns)
					}
					gs = append(gs, cat(g.joinWords([]string{"GROUPING", "SETS"}), sym("("), commaJoin(sets), sym(")")))
					s.GroupBy = append(s.GroupBy, ge)
				default:
					e := g.at(g.Value(), POr)
					gs = append(gs, e.T)
					s.GroupBy = append(s.GroupBy, e.N)
				}
			}
			t = cat(t, commaJoin(gs))
		}
		if g.chance(15, "having") {
			g.use("having")
			c := g.at(g.Bool(), POr)
			t = cat(t, g.kw("HAVING"), c.T)
			s.Having = c.N
		}
	}
	if tail && len(s.From) > 0 { // clauses after a FROM-less SELECT are outside the model (no document promises them)
		if g.chance(30, "orderby") {
			g.use("order_by")
			ots, ons := g.orderItems(1 + g.intn(3, "norder"))
			if g.F.OrderByAlias && len(selAliases) > 0 && g.chance(30, "orderbyalias") {
				// ORDER BY <select-list alias>: a reference to an output column, not to a table column
				g.use("order_by_alias")
				a := selAliases[g.intn(len(selAliases), "whichalias")]
				ots = append(ots, sym(a.src))
				ons = append(ons, ast.OrderByExpression{Expression: &ast.Identifier{Name: a.name}, Ascending: true})
			}
			t = cat(t, g.kw("ORDER", "BY"), commaJoin(ots))
			s.OrderBy = ons
		}
		lim := g.intn(10, "limitkind")
		switch {
		case lim >= 8:
			g.use("limit")
			n := rapid.SampledFrom([]int{0, 1, 10, 100, 2147483647, 123456789012}).Draw(g.T, "limit")
			t = cat(t, g.kw("LIMIT"), sym(strconv.Itoa(n)))
			s.Limit = &n
			if g.chance(50, "offset") {
				o := rapid.SampledFrom([]int{0, 5, 20}).Draw(g.T, "offset")
				t = cat(t, g.kw("OFFSET"), sym(strconv.Itoa(o)))
				s.Offset = &o
			}
		case lim == 7 && !g.F.NoFetch:
			g.use("fetch")
			if g.chance(50, "fetchoffset") {
				o := rapid.SampledFrom([]int{0, 5, 20}).Draw(g.T, "offset")
				t = cat(t, g.kw("OFFSET"), sym(strconv.Itoa(o)), g.kw(rapid.SampledFrom([]string{"ROW", "ROWS"}).Draw(g.T, "rowword")))
				s.Offset = &o
			}
			ft := rapid.SampledFrom([]string{"FIRST", "NEXT"}).Draw(g.T, "fetchtype")
			v := int64(rapid.SampledFrom([]int{1, 5, 50}).Draw(g.T, "fetchn"))
			f := &ast.FetchClause{FetchType: ft, FetchValue: &v}
			t = cat(t, g.kw("FETCH", ft), sym(strconv.FormatInt(v, 10)))
			if g.chance(25, "percent") {
				t = cat(t, g.kw("PERCENT"))
				f.IsPercent = true
			}
			t = cat(t, g.kw(rapid.SampledFrom([]string{"ROW", "ROWS"}).Draw(g.T, "rowword2")))
			if !g.F.Flat && g.chance(30, "ties") {
				t = cat(t, g.kw("WITH", "TIES"))
				f.WithTies = true
			} else {
				t = cat(t, g.kw("ONLY"))
			}
			s.Fetch = f
		}
		if len(s.From) > 0 && !g.F.NoForClause && !g.F.Flat && g.chance(8, "forclause") {
			g.use("for_clause")
			lt := rapid.SampledFrom([]string{"UPDATE", "SHARE", "NO KEY UPDATE", "KEY SHARE"}).Draw(g.T, "locktype")
			fc := &ast.ForClause{LockType: lt}
			t = cat(t, g.kw("FOR"))
			for _, w := range splitWords(lt) {
				t = cat(t, g.kw(w))
			}
			if g.chance(30, "forof") {
				tb := g.pick(tblPool[:4], "fortbl")
				g.Names.MaybeTables[tb.name] = true
				t = cat(t, g.kw("OF"), sym(tb.src))
				fc.Tables = []string{tb.name}
			}
			switch g.intn(4, "forwait") {
			case 2:
				t = cat(t, g.kw("NOWAIT"))
				fc.NoWait = true
			case 3:
				t = cat(t, g.kw("SKIP", "LOCKED"))
				fc.SkipLocked = true
			}
			s.For = fc
		}
	}
	return t, s
}

func splitWords(s string) []string {
	var out []string
	cur := ""
	for _, r := range s {
		if r == ' ' {
			if cur != "" {
				out = append(out, cur)
			}
			cur = ""
			continue
		}
		cur += string(r)
	}
	if cur != "" {
		out = append(out, cur)
	}
	return out
}
