package sqlgen

import (
	"strings"

	"github.com/ajitpratap0/GoSQLX/pkg/sql/ast"
	"pgregory.net/rapid"
)

func lit(v interface{}, typ string) *ast.LiteralValue { return &ast.LiteralValue{Value: v, Type: typ} }

// ---------------------------------------------------------------- atoms

func (g *G) number() X {
	s := rapid.SampledFrom([]string{"0", "1", "2", "7", "42", "100", "1.5", "0.25", "3.14", "1e3", "2.5E-2", "123456789012"}).Draw(g.T, "num")
	typ := "int"
	if strings.ContainsAny(s, ".eE") {
		typ = "float"
	}
	return X{sym(s), lit(s, typ), PPrimary}
}

func (g *G) str() X {
	v := rapid.SampledFrom([]string{"x", "abc", "", "it's", "a b", "%x%", "select", "1", "é", "--c", "/*", "k", "{\"a\":1}",
		"line1\nline2", "tab\there", "back\\slash", "cr\rlf\n", "q\"uote", "Mixed Case", "NULL",
		"left join", "GROUP BY", "order by", "full outer join"}).Draw(g.T, "str")
	if g.F.Corners && g.chance(6, "oddstr") {
		// a value that starts with a quote (written \' so that it is not read as a triple quote), a raw Ctrl-Z
		odd := []string{"'lead", "'", "a\x1ab", "''twice"}
		if g.F.NoBackslashQuote {
			odd = []string{"a\x1ab"}
		}
		v = rapid.SampledFrom(odd).Draw(g.T, "oddstrv")
		g.use("odd_string")
	}
	g.Names.Strings[v] = true
	var b strings.Builder
	b.WriteByte('\'')
	raw := g.chance(30, "rawnewline")
	for i, r := range v {
		switch r {
		case '\'':
			if i == 0 {
				b.WriteString(`\'`)
				continue
			}
			b.WriteString("''")
		case '\\':
			b.WriteString(`\\`)
		case '\n':
			if raw {
				b.WriteByte('\n')
			} else {
				b.WriteString(`\n`)
			}
		case '\r':
			b.WriteString(`\r`)
		case '\t':
			if raw {
				b.WriteByte('\t')
			} else {
				b.WriteString(`\t`)
			}
		default:
			b.WriteRune(r)
		}
	}
	b.WriteByte('\'')
	return X{sym(b.String()), lit(v, "string"), PPrimary}
}

func (g *G) boolLit() X {
	w := "TRUE"
	if g.chance(50, "boolv") {
		w = "FALSE"
	}
	sp := w
	if g.F.BoolLiteralCase {
		sp = g.kwText(w)
	}
	return X{[]Tok{{sp, true}}, lit(sp, "bool"), PPrimary}
}

// literal draws a constant (DEFAULT values).
func (g *G) literal() X {
	switch g.intn(4, "literal") {
	case 0:
		return g.number()
	case 1:
		return g.str()
	case 2:
		return g.boolLit()
	default:
		return g.null()
	}
}

func (g *G) null() X { return X{g.kw("NULL"), lit(nil, "null"), PPrimary} }

func (g *G) placeholder() X {
	s := rapid.SampledFrom([]string{"$1", "$2", "$10"}).Draw(g.T, "ph")
	return X{sym(s), lit(s, "placeholder"), PPrimary}
}

func (g *G) colRef() X {
	c := g.column()
	if g.chance(35, "qualified") {
		t := g.pick(append(append([]ident{}, tblPool[:4]...), aliasPool[:3]...), "qual")
		g.Names.Columns[t.name+"."+c.name] = true
		return X{sym(t.src, ".", c.src), &ast.Identifier{Name: c.name, Table: t.name}, PPrimary}
	}
	g.Names.Columns[c.name] = true
	return X{sym(c.src), &ast.Identifier{Name: c.name}, PPrimary}
}

func (g *G) typeName() string {
	return rapid.SampledFrom(typePool).Draw(g.T, "type")
}

func typeToks(t string) []Tok {
	// VARCHAR(10) -> VARCHAR ( 10 ) ; NUMERIC(10,2) -> NUMERIC ( 10 , 2 )
	var out []Tok
	cur := ""
	flush := func() {
		if cur != "" {
			out = append(out, Tok{cur, false})
			cur = ""
		}
	}
	for _, r := range t {
		switch r {
		case '(', ')', ',':
			flush()
			out = append(out, Tok{string(r), false})
		default:
			cur += string(r)
		}
	}
	flush()
	return out
}

// ---------------------------------------------------------------- value expressions

func (g *G) deeper() func() { g.depth++; return func() { g.depth-- } }

func (g *G) leafValue() X {
	if g.F.KeywordValues && g.chance(4, "kwvalue") {
		g.use("keyword_value")
		w := rapid.SampledFrom([]string{"CURRENT_DATE", "CURRENT_TIMESTAMP", "CURRENT_USER", "CURRENT_TIME"}).Draw(g.T, "kwvaluename")
		return X{sym(w), &ast.Identifier{Name: w}, PPrimary}
	}
	switch g.intn(10, "leafv") {
	case 0, 1, 2:
		return g.colRef()
	case 3, 4:
		return g.number()
	case 5, 6:
		return g.str()
	case 7:
		return g.null()
	case 8:
		return g.placeholder()
	default:
		return g.colRef()
	}
}

// Value draws a value-typed expression.
func (g *G) Value() X {
	if g.depth >= g.F.MaxDepth {
		return g.leafValue()
	}
	defer g.deeper()()
	switch g.intn(26, "valkind") {
	case 0, 1, 2, 3:
		return g.leafValue()
	case 4, 5, 6, 7, 8, 22, 23:
		return g.arith()
	case 9:
		return g.concat()
	case 10, 11:
		return g.funcCall(false)
	case 12:
		return g.caseExpr()
	case 13:
		return g.castExpr()
	case 14:
		return g.jsonChain(false)
	case 15:
		if g.F.Flat {
			return g.leafValue()
		}
		return g.scalarSubquery()
	case 16:
		return g.arrayExpr()
	case 17:
		return g.interval()
	case 18:
		return g.subscript()
	case 19:
		if g.F.UnaryMinus {
			return g.unaryMinus()
		}
		return g.arith()
	case 20:
		return g.windowCall()
	case 21:
		return g.aggCall()
	default:
		return g.leafValue()
	}
}

func (g *G) binary(l X, op []Tok, opText string, r X, p int) X {
	return X{cat(l.T, op, r.T), &ast.BinaryExpression{Left: l.N, Operator: opText, Right: r.N}, p}
}

func (g *G) arith() X {
	g.use("arith")
	op := rapid.SampledFrom([]string{"+", "-", "*", "/", "%"}).Draw(g.T, "arithop")
	p := PAdd
	if op == "*" || op == "/" || op == "%" {
		p = PMul
	}
	l := g.at(g.Value(), p)
	r := g.at(g.Value(), p+5)
	return g.binary(l, sym(op), op, r, p)
}

func (g *G) concat() X {
	g.use("concat")
	l := g.at(g.Value(), PConcat)
	r := g.at(g.Value(), PConcat+5)
	return g.binary(l, sym("||"), "||", r, PConcat)
}

func (g *G) unaryMinus() X {
	g.use("unary_minus")
	var o X
	switch {
	case !g.F.NoNestedSign && g.depth < g.F.MaxDepth && g.chance(20, "nested_sign"):
		// - - a : a sign applied to a signed operand (written "--a" it would be a comment)
		g.use("nested_unary_minus")
		defer g.deeper()()
		o = g.unaryMinus()
	case g.depth < g.F.MaxDepth && g.chance(20, "minus_paren"):
		defer g.deeper()()
		o = g.at(g.arith(), PPrimary)
	default:
		o = g.at(g.leafValue(), PPrimary)
	}
	return X{cat(sym("-"), o.T), &ast.UnaryExpression{Operator: ast.Minus, Expr: o.N}, PUMinus}
}

func (g *G) args(n int) ([][]Tok, []ast.Expression) {
	var ts [][]Tok
	var ns []ast.Expression
	for i := 0; i < n; i++ {
		var a X
		if g.chance(15, "boolarg") {
			a = g.at(g.Bool(), POr)
		} else {
			a = g.at(g.Value(), POr)
		}
		ts = append(ts, a.T)
		ns = append(ns, a.N)
	}
	return ts, ns
}

func (g *G) funcName(pool []string, label string) (string, []Tok) {
	n := rapid.SampledFrom(pool).Draw(g.T, label)
	sp := n
	if g.chance(30, "fncase") {
		sp = strings.ToUpper(n)
	}
	if g.F.Corners && g.chance(4, "quotedfn") {
		// a quoted function name: "My Fn" ( .. )
		g.use("quoted_function_name")
		g.Names.Functions["My Fn"] = true
		return "My Fn", sym(`"My Fn"`)
	}
	g.Names.Functions[sp] = true
	return sp, sym(sp)
}

func (g *G) funcCall(forceStar bool) X {
	g.use("func_call")
	name, nt := g.funcName(fnPool, "fn")
	ts, ns := g.args(g.intn(4, "nargs"))
	return X{cat(nt, sym("("), commaJoin(ts), sym(")")), &ast.FunctionCall{Name: name, Arguments: ns}, PPrimary}
}

func (g *G) orderItems(n int) ([][]Tok, []ast.OrderByExpression) {
	var ts [][]Tok
	var ns []ast.OrderByExpression
	for i := 0; i < n; i++ {
		e := g.at(g.Value(), POr)
		t := e.T
		ob := ast.OrderByExpression{Expression: e.N, Ascending: true}
		switch g.intn(3, "dir") {
		case 1:
			t = cat(t, g.kw("ASC"))
		case 2:
			t = cat(t, g.kw("DESC"))
			ob.Ascending = false
		}
		switch g.intn(4, "nulls") {
		case 1:
			t = cat(t, g.kw("NULLS", "FIRST"))
			v := true
			ob.NullsFirst = &v
		case 2:
			t = cat(t, g.kw("NULLS", "LAST"))
			v := false
			ob.NullsFirst = &v
		}
		ts = append(ts, t)
		ns = append(ns, ob)
	}
	return ts, ns
}

func (g *G) aggCall() X {
	g.use("agg_call")
	name, nt := g.funcName(aggPool, "agg")
	fc := &ast.FunctionCall{Name: name}
	t := cat(nt, sym("("))
	if g.chance(20, "star") {
		t = cat(t, sym("*"))
		fc.Arguments = []ast.Expression{&ast.Identifier{Name: "*"}}
	} else {
		if g.chance(30, "distinct") {
			t = cat(t, g.kw("DISTINCT"))
			fc.Distinct = true
		}
		ts, ns := g.args(1 + g.intn(2, "nargs"))
		t = cat(t, commaJoin(ts))
		fc.Arguments = ns
		if g.chance(25, "aggorder") {
			g.use("agg_order_by")
			ots, ons := g.orderItems(1 + g.intn(2, "nord"))
			t = cat(t, g.kw("ORDER", "BY"), commaJoin(ots))
			fc.OrderBy = ons
		}
	}
	t = cat(t, sym(")"))
	if g.chance(15, "within") {
		g.use("within_group")
		ots, ons := g.orderItems(1)
		t = cat(t, g.kw("WITHIN", "GROUP"), sym("("), g.kw("ORDER", "BY"), commaJoin(ots), sym(")"))
		fc.WithinGroup = ons
	}
	if g.chance(25, "filter") {
		g.use("filter")
		c := g.at(g.Bool(), POr)
		t = cat(t, g.kw("FILTER"), sym("("), g.kw("WHERE"), c.T, sym(")"))
		fc.Filter = c.N
	}
	if g.chance(30, "over") {
		wt, w := g.windowSpec()
		t = cat(t, g.kw("OVER"), wt)
		fc.Over = w
	}
	return X{t, fc, PPrimary}
}

func (g *G) frameBound(start bool) ([]Tok, ast.WindowFrameBound) {
	switch g.intn(4, "bound") {
	case 0:
		if start {
			return g.kw("UNBOUNDED", "PRECEDING"), ast.WindowFrameBound{Type: "UNBOUNDED PRECEDING"}
		}
		return g.kw("UNBOUNDED", "FOLLOWING"), ast.WindowFrameBound{Type: "UNBOUNDED FOLLOWING"}
	case 1:
		return g.kw("CURRENT", "ROW"), ast.WindowFrameBound{Type: "CURRENT ROW"}
	default:
		if !g.F.FrameOffsets {
			return g.kw("CURRENT", "ROW"), ast.WindowFrameBound{Type: "CURRENT ROW"}
		}
		g.use("frame_offset")
		n := g.number()
		if g.chance(50, "prec") {
			return cat(n.T, g.kw("PRECEDING")), ast.WindowFrameBound{Type: "PRECEDING", Value: n.N}
		}
		return cat(n.T, g.kw("FOLLOWING")), ast.WindowFrameBound{Type: "FOLLOWING", Value: n.N}
	}
}

func (g *G) windowSpec() ([]Tok, *ast.WindowSpec) {
	g.use("window")
	w := &ast.WindowSpec{}
	t := sym("(")
	if g.chance(60, "partition") {
		ts, ns := g.args(1 + g.intn(2, "npart"))
		t = cat(t, g.kw("PARTITION", "BY"), commaJoin(ts))
		w.PartitionBy = ns
	}
	if g.chance(60, "worder") {
		ots, ons := g.orderItems(1 + g.intn(2, "nord"))
		t = cat(t, g.kw("ORDER", "BY"), commaJoin(ots))
		w.OrderBy = ons
	}
	if !g.F.NoWindowFrame && g.chance(40, "frame") {
		g.use("window_frame")
		ft := "ROWS"
		if g.chance(40, "range") {
			ft = "RANGE"
		}
		sp := g.kwText(ft)
		fr := &ast.WindowFrame{Type: sp}
		t = cat(t, []Tok{{sp, true}})
		if g.chance(70, "between") {
			st, sb := g.frameBound(true)
			et, eb := g.frameBound(false)
			t = cat(t, g.kw("BETWEEN"), st, g.kw("AND"), et)
			fr.Start = sb
			fr.End = &eb
		} else {
			st, sb := g.frameBound(true)
			t = cat(t, st)
			fr.Start = sb
		}
		w.FrameClause = fr
	}
	t = cat(t, sym(")"))
	return t, w
}

func (g *G) windowCall() X {
	name, nt := g.funcName([]string{"row_number", "rank", "dense_rank", "lag", "lead", "first_value", "ntile"}, "wfn")
	var ts [][]Tok
	var ns []ast.Expression
	if name != "row_number" && name != "rank" && name != "dense_rank" && strings.ToLower(name) != "row_number" && strings.ToLower(name) != "rank" && strings.ToLower(name) != "dense_rank" {
		ts, ns = g.args(1)
	}
	wt, w := g.windowSpec()
	return X{cat(nt, sym("("), commaJoin(ts), sym(")"), g.kw("OVER"), wt), &ast.FunctionCall{Name: name, Arguments: ns, Over: w}, PPrimary}
}

func (g *G) caseExpr() X {
	g.use("case")
	ce := &ast.CaseExpression{}
	t := g.kw("CASE")
	simple := g.chance(40, "simplecase")
	if simple {
		v := g.at(g.Value(), POr)
		t = cat(t, v.T)
		ce.Value = v.N
	}
	n := 1 + g.intn(3, "nwhen")
	for i := 0; i < n; i++ {
		var c X
		if simple {
			c = g.at(g.Value(), POr)
		} else {
			c = g.at(g.Bool(), POr)
		}
		r := g.at(g.Value(), POr)
		t = cat(t, g.kw("WHEN"), c.T, g.kw("THEN"), r.T)
		ce.WhenClauses = append(ce.WhenClauses, ast.WhenClause{Condition: c.N, Result: r.N})
	}
	if g.chance(60, "else") {
		e := g.at(g.Value(), POr)
		t = cat(t, g.kw("ELSE"), e.T)
		ce.ElseClause = e.N
	}
	t = cat(t, g.kw("END"))
	return X{t, ce, PPrimary}
}

func (g *G) castExpr() X {
	g.use("cast")
	ty := g.typeName()
	if g.chance(50, "castfn") {
		e := g.at(g.Value(), POr)
		return X{cat(g.kw("CAST"), sym("("), e.T, g.kw("AS"), typeToks(ty), sym(")")), &ast.CastExpression{Expr: e.N, Type: ty}, PPrimary}
	}
	e := g.at(g.Value(), PCast)
	if g.F.Corners && g.chance(20, "castarray") {
		// types only the :: spelling accepts
		g.use("cast_operator_only_type")
		ty = rapid.SampledFrom([]string{"INT[]", "TEXT[]", "INTERVAL", "VARCHAR[]"}).Draw(g.T, "arraytype")
		tt := sym(strings.TrimSuffix(ty, "[]"))
		if strings.HasSuffix(ty, "[]") {
			tt = cat(tt, sym("[", "]"))
		}
		return X{cat(e.T, sym("::"), tt), &ast.CastExpression{Expr: e.N, Type: ty}, PCast}
	}
	return X{cat(e.T, sym("::"), typeToks(ty)), &ast.CastExpression{Expr: e.N, Type: ty}, PCast}
}

var jsonValOps = []string{"->", "->>", "#>", "#>>", "#-"}
var jsonBoolOps = []string{"@>", "<@", "?", "?|", "?&"}

// jsonChain draws col -> 'k' ->> 'j' [boolop x]; operands are primaries.
func (g *G) jsonChain(boolean bool) X {
	g.use("json_op")
	cur := g.colRef()
	if g.F.Corners && g.F.UnaryMinus && g.chance(10, "jsonsigned") {
		// ( - a ) -> 'k' : the sign binds looser than the JSON operators, the parentheses are required
		g.use("json_signed_operand")
		cur = paren(X{cat(sym("-"), cur.T), &ast.UnaryExpression{Operator: ast.Minus, Expr: cur.N}, PUMinus})
	}
	n := g.intn(3, "jsonlen")
	if !boolean {
		n++
	}
	for i := 0; i < n; i++ {
		op := rapid.SampledFrom(jsonValOps).Draw(g.T, "jsonop")
		var r X
		if g.chance(70, "jsonstr") {
			r = g.str()
		} else {
			r = g.at(g.leafValue(), PPrimary)
		}
		l := cur
		if !(l.P == PJSON || l.P >= PCast) {
			l = paren(l)
		}
		cur = g.binary(l, sym(op), op, r, PJSON)
	}
	if boolean {
		op := rapid.SampledFrom(jsonBoolOps).Draw(g.T, "jsonbop")
		r := g.str()
		cur = g.binary(cur, sym(op), op, r, PJSON)
	}
	return cur
}

func (g *G) scalarSubquery() X {
	g.use("scalar_subquery")
	t, n := g.Query(true)
	return X{cat(sym("("), t, sym(")")), &ast.SubqueryExpression{Subquery: n}, PPrimary}
}

func (g *G) arrayExpr() X {
	g.use("array")
	ts, ns := g.args(g.intn(4, "nelem"))
	a := &ast.ArrayConstructorExpression{Elements: ns}
	return X{cat(g.kw("ARRAY"), sym("["), commaJoin(ts), sym("]")), a, PPrimary}
}

func (g *G) interval() X {
	g.use("interval")
	v := rapid.SampledFrom([]string{"1 day", "2 hours", "1 year 2 months"}).Draw(g.T, "iv")
	if g.F.Corners && g.chance(10, "ivquote") {
		g.use("interval_with_quote")
		return X{cat(g.kw("INTERVAL"), sym("'1 o''clock'")), &ast.IntervalExpression{Value: "1 o'clock"}, PPrimary}
	}
	return X{cat(g.kw("INTERVAL"), sym("'"+v+"'")), &ast.IntervalExpression{Value: v}, PPrimary}
}

func (g *G) subscript() X {
	g.use("subscript")
	base := g.colRef()
	if g.F.Corners && g.depth < g.F.MaxDepth && g.chance(20, "subscriptbase") {
		// ( ARRAY [ .. ] ) [ i ] , ( f ( a ) ) [ i ] , ( CASE .. END ) [ i ] : the parentheses are required
		g.use("subscript_of_expression")
		defer g.deeper()()
		switch g.intn(3, "subscriptbasekind") {
		case 0:
			base = paren(g.arrayExpr())
		case 1:
			base = paren(g.funcCall(false))
		default:
			base = paren(g.caseExpr())
		}
	}
	var cur ast.Expression = base.N
	t := base.T
	n := 1 + g.intn(2, "nsub")
	for i := 0; i < n; i++ {
		if g.chance(30, "slice") {
			sl := &ast.ArraySliceExpression{Array: cur}
			t = cat(t, sym("["))
			if g.chance(70, "slstart") {
				s := g.at(g.Value(), POr)
				t = cat(t, s.T)
				sl.Start = s.N
			}
			t = cat(t, sym(":"))
			if g.chance(70, "slend") {
				e := g.at(g.Value(), POr)
				t = cat(t, e.T)
				sl.End = e.N
			}
			t = cat(t, sym("]"))
			cur = sl
		} else {
			ix := g.at(g.Value(), POr)
			t = cat(t, sym("["), ix.T, sym("]"))
			cur = &ast.ArraySubscriptExpression{Array: cur, Indices: []ast.Expression{ix.N}}
		}
	}
	return X{t, cur, PPrimary}
}

// ---------------------------------------------------------------- boolean expressions

func (g *G) leafBool() X {
	switch g.intn(6, "leafb") {
	case 0, 1:
		return g.colRef()
	case 2:
		return g.boolLit()
	default:
		l, r := g.leafValue(), g.leafValue()
		op := rapid.SampledFrom(cmpOps).Draw(g.T, "cmpop")
		return g.binary(l, sym(op), op, r, PCmp)
	}
}

// Bool draws a boolean-typed expression.
func (g *G) Bool() X {
	if g.depth >= g.F.MaxDepth {
		return g.leafBool()
	}
	defer g.deeper()()
	switch g.intn(33, "boolkind") {
	case 32:
		if g.F.MySQL && !g.F.NoMatchAgainst {
			return g.matchAgainst()
		}
		return g.leafBool()
	case 30, 31:
		return g.spineChain()
	case 0, 1, 2:
		return g.leafBool()
	case 4:
		return g.boolLit()
	case 3, 5, 6, 7, 8:
		return g.comparison()
	case 9:
		return g.isNull()
	case 10:
		return g.like()
	case 11, 12:
		return g.in()
	case 13:
		return g.between()
	case 14, 15, 16:
		return g.not()
	case 17, 18, 19, 20, 21, 22:
		return g.logical("AND", PAnd)
	case 23, 24, 25, 26, 27:
		return g.logical("OR", POr)
	case 28:
		if g.F.Flat {
			return g.leafBool()
		}
		if g.chance(50, "existsorq") {
			return g.exists()
		}
		return g.quantified()
	default:
		return g.jsonChain(true)
	}
}

// spineChain draws a left-deep chain of binary operators that get looser towards the top
// (innermost tight, outermost loose) over a parenthesised leftmost operand that binds looser
// than the innermost operator but not looser than the outermost one:
//
//	( NOT a ) = b OR c        ( a + b ) * c = d AND e        ( a OR b ) = c AND d
//
// The parentheses of the leaf are required by the innermost operator only, which is the case a
// serialiser gets wrong when it decides them against the wrong end of the chain.
func (g *G) spineChain() X {
	g.use("spine_chain")
	type level struct {
		p            int
		op           string
		kw           bool
		boolOperands bool
	}
	levels := []level{{PMul, "*", false, false}, {PAdd, "+", false, false}, {PConcat, "||", false, false}, {PCmp, "=", false, false}, {PAnd, "AND", true, true}, {POr, "OR", true, true}}
	inner := g.intn(4, "spine_inner")                   // 0..3: the innermost operator is *, +, || or =
	outer := inner + 1 + g.intn(5-inner, "spine_outer") // strictly looser, ends with AND/OR or =
	if outer < 3 {
		outer = 3 // the chain is boolean-typed: it must reach a comparison at least
	}
	// leaf: binds looser than the innermost operator needs
	var leaf X
	switch {
	case inner == 3: // comparison over a boolean operand
		switch g.intn(3, "spine_leaf_bool") {
		case 0:
			leaf = g.notOf(g.leafBool())
		case 1:
			leaf = g.logical2("OR", POr)
		default:
			leaf = g.logical2("AND", PAnd)
		}
	default: // arithmetic / concat over a looser value expression
		opts := []level{}
		for _, l := range levels[inner+1 : 3] {
			opts = append(opts, l)
		}
		if len(opts) == 0 { // inner is ||: only an arithmetic leaf binds tighter; use a unary sign-free sum in parens anyway
			opts = []level{{PAdd, "+", false, false}}
		}
		l := opts[g.intn(len(opts), "spine_leaf_val")]
		a, b := g.leafValue(), g.leafValue()
		leaf = g.binary(a, sym(l.op), l.op, b, l.p)
	}
	cur := paren(leaf)
	if leaf.P >= levels[inner].p {
		cur = leaf // (the || case above) no parentheses needed
	}
	for i := inner; i <= outer; i++ {
		l := levels[i]
		var r X
		if l.boolOperands {
			r = g.at(g.leafBool(), l.p+10)
		} else {
			r = g.at(g.leafValue(), l.p+5)
		}
		sp := l.op
		opTok := sym(l.op)
		if l.kw {
			sp = g.kwText(l.op)
			opTok = []Tok{{sp, true}}
		}
		cur = g.binary(cur, opTok, sp, r, l.p)
	}
	return cur
}

// notOf is NOT over a simple operand.
func (g *G) notOf(o X) X {
	o = g.at(o, PNot)
	return X{cat(g.kw("NOT"), o.T), &ast.UnaryExpression{Operator: ast.Not, Expr: o.N}, PNot}
}

// logical2 is a two-operand AND/OR over simple operands.
func (g *G) logical2(op string, p int) X {
	sp := g.kwText(op)
	l := g.at(g.leafBool(), p)
	r := g.at(g.leafBool(), p+10)
	return g.binary(l, []Tok{{sp, true}}, sp, r, p)
}

func (g *G) logical(op string, p int) X {
	g.use("logical_" + op)
	sp := g.kwText(op)
	l := g.at(g.Bool(), p)
	r := g.at(g.Bool(), p+10)
	return g.binary(l, []Tok{{sp, true}}, sp, r, p)
}

func (g *G) not() X {
	g.use("not")
	if g.F.Corners && !g.F.Flat && g.depth < g.F.MaxDepth && g.chance(8, "notexistscmp") {
		// NOT ( EXISTS ( q ) = b ) : without the parentheses NOT EXISTS would capture the EXISTS part only
		g.use("not_over_exists_comparison")
		defer g.deeper()()
		ex := g.exists()
		r := g.at(g.leafValue(), PJSON)
		cmp := g.binary(ex, sym("="), "=", r, PCmp)
		return X{cat(g.kw("NOT"), paren(cmp).T), &ast.UnaryExpression{Operator: ast.Not, Expr: cmp.N}, PNot}
	}
	o := g.at(g.Bool(), PNot)
	if ex, ok := o.N.(*ast.ExistsExpression); ok && o.T[0].Text != "(" {
		// the text reads NOT EXISTS (q): doc.go gives that form its own shape
		return X{cat(g.kw("NOT"), o.T), &ast.BinaryExpression{Left: ex, Operator: "NOT", Not: true}, PNot}
	}
	return X{cat(g.kw("NOT"), o.T), &ast.UnaryExpression{Operator: ast.Not, Expr: o.N}, PNot}
}

// cmpOperand: value operand of a comparison or predicate (binds tighter than comparison).
func (g *G) cmpOperand(right bool) X {
	if g.depth < g.F.MaxDepth && g.chance(7, "bool_operand") {
		// a boolean expression as comparison operand: (NOT a) = b, (x IN (1, 2)) = TRUE;
		// it binds looser than the comparison, so it is always parenthesised
		g.use("bool_operand_of_comparison")
		defer g.deeper()()
		return g.at(g.Bool(), PJSON)
	}
	v := g.Value()
	if right && !g.F.CmpRhsArith && v.P < PCast && v.P != PPrimary {
		// finding active: steer around non-primary right operands by parenthesising
		g.use("excluded_cmp_rhs")
		return paren(v)
	}
	return g.at(v, PJSON)
}

var cmpOps = []string{"=", "<>", "!=", "<", "<=", ">", ">=", "~", "~*", "!~", "!~*"}

func (g *G) comparison() X {
	g.use("comparison")
	op := rapid.SampledFrom(cmpOps).Draw(g.T, "cmpop")
	l := g.cmpOperand(false)
	r := g.cmpOperand(true)
	if r.P < PCast {
		g.use("cmp_rhs_nonprimary")
	}
	return g.binary(l, sym(op), op, r, PCmp)
}

func (g *G) isNull() X {
	g.use("is_null")
	l := g.cmpOperand(false)
	not := g.F.IsNotNull && g.chance(50, "isnot")
	t := cat(l.T, g.kw("IS"))
	if not {
		g.use("is_not_null")
		t = cat(t, g.kw("NOT"))
	}
	t = cat(t, g.kw("NULL"))
	return X{t, &ast.BinaryExpression{Left: l.N, Operator: "IS NULL", Right: lit(nil, "null"), Not: not}, PCmp}
}

func (g *G) like() X {
	g.use("like")
	l := g.cmpOperand(false)
	not := g.chance(40, "notlike")
	op := "LIKE"
	if g.chance(30, "ilike") {
		op = "ILIKE"
	}
	sp := g.kwText(op)
	var r X
	if g.chance(70, "likestr") {
		r = g.str()
	} else {
		r = g.cmpOperand(true)
	}
	t := l.T
	if not {
		t = cat(t, g.kw("NOT"))
	}
	t = cat(t, []Tok{{sp, true}}, r.T)
	return X{t, &ast.BinaryExpression{Left: l.N, Operator: sp, Right: r.N, Not: not}, PCmp}
}

// tuple draws a row value (e1, e2[, e3]).
func (g *G) tuple(n int) X {
	ts, ns := g.args(n)
	return X{cat(sym("("), commaJoin(ts), sym(")")), &ast.TupleExpression{Expressions: ns}, PPrimary}
}

func (g *G) in() X {
	g.use("in")
	var l X
	width := 0
	if !g.F.NoTupleIn && g.depth < g.F.MaxDepth && g.chance(15, "tuplein") {
		// (a, b) IN ((1, 2), (3, 4)) / (a, b) IN (SELECT ...)
		g.use("tuple_in")
		width = 2 + g.intn(2, "tuplewidth")
		l = g.tuple(width)
	} else {
		l = g.cmpOperand(false)
	}
	not := g.chance(40, "notin")
	t := l.T
	if not {
		t = cat(t, g.kw("NOT"))
	}
	t = cat(t, g.kw("IN"), sym("("))
	ie := &ast.InExpression{Expr: l.N, Not: not}
	if !g.F.Flat && g.chance(35, "insub") {
		g.use("in_subquery")
		qt, qn := g.Query(true)
		t = cat(t, qt)
		ie.Subquery = qn
	} else if width > 0 {
		var ts [][]Tok
		for i, n := 0, 1+g.intn(3, "nintuples"); i < n; i++ {
			e := g.tuple(width)
			ts = append(ts, e.T)
			ie.List = append(ie.List, e.N)
		}
		t = cat(t, commaJoin(ts))
	} else {
		ts, ns := g.args(1 + g.intn(3, "nin"))
		t = cat(t, commaJoin(ts))
		ie.List = ns
	}
	t = cat(t, sym(")"))
	return X{t, ie, PCmp}
}

func (g *G) between() X {
	g.use("between")
	l := g.cmpOperand(false)
	not := g.chance(40, "notbtw")
	lo := g.at(g.Value(), PConcat)
	hi := g.at(g.Value(), PConcat)
	t := l.T
	if not {
		t = cat(t, g.kw("NOT"))
	}
	t = cat(t, g.kw("BETWEEN"), lo.T, g.kw("AND"), hi.T)
	return X{t, &ast.BetweenExpression{Expr: l.N, Lower: lo.N, Upper: hi.N, Not: not}, PCmp}
}

func (g *G) exists() X {
	qt, qn := g.Query(true)
	if g.F.NotExists && g.chance(40, "notexists") {
		g.use("not_exists")
		// NOT EXISTS (q): doc.go convention - BinaryExpression{Left: Exists, Operator:"NOT", Not:true}
		return X{cat(g.kw("NOT", "EXISTS"), sym("("), qt, sym(")")),
			&ast.BinaryExpression{Left: &ast.ExistsExpression{Subquery: qn}, Operator: "NOT", Not: true}, PNot}
	}
	g.use("exists")
	return X{cat(g.kw("EXISTS"), sym("("), qt, sym(")")), &ast.ExistsExpression{Subquery: qn}, PPrimary}
}

func (g *G) quantified() X {
	g.use("quantified")
	l := g.cmpOperand(false)
	op := rapid.SampledFrom([]string{"=", "<>", "<", ">=", ">"}).Draw(g.T, "qop")
	qt, qn := g.Query(true)
	w := "ANY"
	if g.chance(50, "all") {
		w = "ALL"
	} else if !g.F.NoSome && g.chance(30, "some") {
		w = "SOME" // the standard's synonym of ANY: same node
		g.use("some")
	}
	sp := w
	if g.F.QuantifierCase {
		sp = g.kwText(w)
	}
	t := cat(l.T, sym(op), []Tok{{sp, true}}, sym("("), qt, sym(")"))
	if w != "ALL" {
		return X{t, &ast.AnyExpression{Expr: l.N, Operator: op, Subquery: qn}, PCmp}
	}
	return X{t, &ast.AllExpression{Expr: l.N, Operator: op, Subquery: qn}, PCmp}
}

// matchAgainst draws MySQL full-text search: MATCH (col, ...) AGAINST ('text' [mode]). The parser
// represents it as BinaryExpression{MATCH(cols) AGAINST AGAINST(text[, mode words])}; the mode words
// are stored as written, so they are emitted as fixed-case tokens.
func (g *G) matchAgainst() X {
	g.use("match_against")
	g.Names.Functions["MATCH"] = true // written as a call; AGAINST is a keyword of the predicate
	n := 1 + g.intn(2, "nmatchcols")
	var ts [][]Tok
	var ns []ast.Expression
	for i := 0; i < n; i++ {
		c := g.colRef()
		ts = append(ts, c.T)
		ns = append(ns, c.N)
	}
	var search X
	if g.chance(25, "matchph") {
		search = g.placeholder()
	} else {
		search = g.str()
	}
	t := cat(sym("MATCH", "("), commaJoin(ts), sym(")"), g.kw("AGAINST"), sym("("), search.T)
	against := &ast.FunctionCall{Name: "AGAINST", Arguments: []ast.Expression{search.N}}
	modes := [][]string{nil, {"IN", "NATURAL", "LANGUAGE", "MODE"}, {"IN", "BOOLEAN", "MODE"}, {"WITH", "QUERY", "EXPANSION"}}
	if m := modes[g.intn(len(modes), "matchmode")]; m != nil {
		t = cat(t, sym(m...))
		against.Arguments = append(against.Arguments, &ast.LiteralValue{Value: strings.Join(m, " "), Type: "STRING"})
	}
	t = cat(t, sym(")"))
	return X{t, &ast.BinaryExpression{Left: &ast.FunctionCall{Name: "MATCH", Arguments: ns}, Operator: "AGAINST", Right: against}, PPrimary}
}
