// Package sqlgen is G-SQL: a grammar-directed generator that draws a statement
// of the documented SQL surface and returns, for the text it renders, the tree
// the grammar prescribes (built from the library's own ast node types following
// the conventions of pkg/sql/ast/doc.go), plus the name sets it placed.
package sqlgen

import (
	"strings"

	"github.com/ajitpratap0/GoSQLX/pkg/sql/ast"
	"pgregory.net/rapid"
	"verif/gen/lexgen"
)

// Tok is one source token of a generated statement.
type Tok struct {
	Text string `json:"t"`
	KW   bool   `json:"k,omitempty"` // keyword or operator word: letter case is free
}

// Precedence levels (x10), higher binds tighter.
const (
	POr      = 10
	PAnd     = 20
	PNot     = 30
	PCmp     = 40
	PJSON    = 45
	PConcat  = 50
	PAdd     = 60
	PMul     = 70
	PUMinus  = 75
	PCast    = 90
	PPrimary = 100
)

// X is an expression fragment.
type X struct {
	T []Tok
	N ast.Expression
	P int
}

// Features are generator switches; a listed known finding turns one off.
type Features struct {
	CmpRhsArith     bool // arithmetic / || on the right of a comparison or LIKE
	UnaryMinus      bool
	SetOpInDerived  bool // UNION inside a derived table
	WithInDerived   bool // WITH inside a derived table / subquery positions that use parseSelectStatement
	LowerCompound   bool // full join / cross join / grouping sets in non-upper case
	QuantifierCase  bool // any/all in non-upper case
	KeywordCase     bool // random keyword case at all
	QuotedKeywordID bool // "select" style identifiers
	IsNotNull       bool
	NotExists       bool
	UsingJoin       bool
	FrameOffsets    bool
	BoolLiteralCase bool
	Redundant       bool // redundant parentheses
	MaxDepth        int
	// clause-level switches (all on by default)
	NoDistinctOn, NoFetch, NoForClause, NoReturning, NoOnConflict, NoDMLWith, NoMaterialized, NoGroupingOps, NoWindowFrame bool
	// DDL / Merge: also draw the supported DDL statements / MERGE (off by default: only the checks
	// that compare whole trees or round-trip text ask for them). QuotedDDLNames: quoted names in DDL.
	// IndexNulls: NULLS LAST on index columns.
	DDL, Merge, QuotedDDLNames, IndexNulls bool
	// DDLExtras: MERGE with a sub-query source, views over WITH queries, schema-qualified REFERENCES, NULLS FIRST on index columns
	DDLExtras bool
	// Alter: ALTER TABLE with one operation; AlterQualified: on a schema-qualified table
	Alter, AlterQualified bool
	// MySQL: the MySQL forms the compatibility document lists as fully supported - REPLACE INTO,
	// INSERT ... ON DUPLICATE KEY UPDATE, MATCH (..) AGAINST (..), SHOW, DESCRIBE, AUTO_INCREMENT,
	// table options (ENGINE= ...). Partitions: CREATE TABLE ... PARTITION BY RANGE/LIST/HASH with
	// partition definitions.
	MySQL, Partitions bool
	// NoMatchAgainst, NoShowDescribe: MySQL without MATCH .. AGAINST / without SHOW and DESCRIBE
	// (C15: no document says whether AGAINST is a function or DESCRIBE t a table position)
	NoMatchAgainst, NoShowDescribe bool
	// NoSome: never spell the ANY quantifier SOME; NoTupleIn: no (a, b) IN ((1, 2), ...) rows
	NoSome, NoTupleIn bool
	// NoNestedSign: no "- - a". QuotedOddNames: quoted column names that start with a digit or contain
	// '*' ("1abc", "a*b"); QuotedDotName / QuotedDigitsName: "a.b" / "12" as a column name.
	NoNestedSign, QuotedOddNames, QuotedDotName, QuotedDigitsName bool
	// Corners: spellings serialisers tend to get wrong - string values that start with a quote or hold a raw
	// control character, INTERVAL values with a quote, casts to array types / INTERVAL (:: only), a signed left
	// operand of a JSON operator, subscripts of parenthesised expressions, NOT over EXISTS (..) = x, quoted
	// function names, every tokenizer keyword as a quoted column name, TABLESPACE / ON CONSTRAINT / index method
	Corners bool
	// OrderByAlias: ORDER BY may name a select-list alias. KeywordValues: CURRENT_DATE, CURRENT_TIMESTAMP,
	// CURRENT_USER as value leaves (the parser gives them the shape of a column reference).
	OrderByAlias, KeywordValues bool
	// NoBackslashQuote: no string literal spelled with a backslash-escaped quote (C17: the linter's text
	// rules do not know that escape - a listed finding)
	NoBackslashQuote bool
	// ReturningAlias: RETURNING expr AS name
	ReturningAlias bool
	// IntersectPrecedence: INTERSECT may follow UNION / EXCEPT in a set-operation chain (the model
	// tree gives it the higher precedence the standard prescribes)
	IntersectPrecedence bool
	// Flat: no nested query anywhere and no statement-starting keyword after the
	// first token (SELECT/INSERT ... VALUES/DELETE only): the sub-grammar C12 quantifies over
	Flat bool
}

func AllFeatures() Features {
	return Features{CmpRhsArith: true, UnaryMinus: true, SetOpInDerived: true, WithInDerived: true, LowerCompound: true, QuantifierCase: true, KeywordCase: true, QuotedKeywordID: true, IsNotNull: true, NotExists: true, UsingJoin: true, FrameOffsets: true, BoolLiteralCase: true, Redundant: true, MaxDepth: 3}
}

// FullFeatures is AllFeatures plus MERGE and the DDL statements with all their options.
func FullFeatures() Features {
	f := AllFeatures()
	f.DDL, f.Merge, f.QuotedDDLNames, f.IndexNulls, f.DDLExtras = true, true, true, true, true
	f.Alter, f.AlterQualified = true, true
	f.MySQL, f.Partitions = true, true
	f.QuotedOddNames, f.QuotedDotName, f.QuotedDigitsName = true, true, true
	f.Corners = true
	f.OrderByAlias, f.KeywordValues = true, true
	f.ReturningAlias = true
	return f
}

// Names records what the generator placed (for C15/C16).
type Names struct {
	Tables    map[string]bool // as written (qualified)
	Columns   map[string]bool // "t.c" or "c"
	Functions map[string]bool
	Aliases   map[string]bool
	CTEs      map[string]bool
	Strings   map[string]bool
	// names in positions no document classifies (CTE column lists, FOR UPDATE OF t): may or may not be extracted
	MaybeColumns map[string]bool
	MaybeTables  map[string]bool
}

func newNames() *Names {
	return &Names{map[string]bool{}, map[string]bool{}, map[string]bool{}, map[string]bool{}, map[string]bool{}, map[string]bool{}, map[string]bool{}, map[string]bool{}}
}

// G carries generation state.
type G struct {
	T     *rapid.T
	F     Features
	Names *Names
	Stats map[string]int // feature usage for classification
	depth int
	// ForceFrom: every SELECT gets a FROM clause (a FROM-less SELECT followed by
	// further clauses of an enclosing statement is outside the model)
	ForceFrom bool
}

func New(t *rapid.T, f Features) *G {
	return &G{T: t, F: f, Names: newNames(), Stats: map[string]int{}}
}

func (g *G) use(s string) { g.Stats[s]++ }

func (g *G) intn(n int, label string) int { return rapid.IntRange(0, n-1).Draw(g.T, label) }
func (g *G) chance(pct int, label string) bool {
	// 0 (the value rapid shrinks towards) must mean "no": shrinking removes options
	return rapid.IntRange(0, 99).Draw(g.T, label) >= 100-pct
}

// kw emits a keyword in a drawn letter case and returns the spelling used.
func (g *G) kwText(w string) string {
	if !g.F.KeywordCase {
		return w
	}
	switch rapid.IntRange(0, 5).Draw(g.T, "kwcase") {
	case 4:
		return strings.ToLower(w)
	case 5:
		return strings.ToUpper(w[:1]) + strings.ToLower(w[1:])
	default:
		return w
	}
}

func (g *G) kw(ws ...string) []Tok {
	var out []Tok
	for _, w := range ws {
		out = append(out, Tok{g.kwText(w), true})
	}
	return out
}

func sym(s ...string) []Tok {
	var out []Tok
	for _, x := range s {
		out = append(out, Tok{x, false})
	}
	return out
}

func cat(parts ...[]Tok) []Tok {
	var out []Tok
	for _, p := range parts {
		out = append(out, p...)
	}
	return out
}

func commaJoin(items [][]Tok) []Tok {
	var out []Tok
	for i, it := range items {
		if i > 0 {
			out = append(out, Tok{",", false})
		}
		out = append(out, it...)
	}
	return out
}

// paren wraps x in parentheses (tree unchanged).
func paren(x X) X {
	return X{T: cat(sym("("), x.T, sym(")")), N: x.N, P: PPrimary}
}

// at returns x parenthesised if it binds looser than min, and sometimes
// redundantly parenthesised when that feature is on.
func (g *G) at(x X, min int) X {
	if x.P < min {
		g.use("required_paren")
		return paren(x)
	}
	if g.F.Redundant && g.chance(8, "redundant") {
		g.use("redundant_paren")
		return paren(x)
	}
	return x
}

// ---------------------------------------------------------------- names

type ident struct {
	src  string // spelling in the source
	name string // value in the tree
}

func q(name string) ident {
	return ident{`"` + strings.ReplaceAll(name, `"`, `""`) + `"`, name}
}
func bare(name string) ident { return ident{name, name} }

var (
	colPool   = []ident{bare("a"), bare("b"), bare("c"), bare("id"), bare("amt"), bare("qty"), bare("col_1"), bare("Price"), q("Col X"), q(`q"t`), bare("é1"), q("né-le"), q("é b")}
	colKwPool = []ident{q("select"), q("from"), q("order"), q("group by"), q("left join")}
	// words the tokenizer or the parser's token conversion type as keywords (beyond the reserved list)
	colKwPool2 = []ident{q("all"), q("default"), q("delete"), q("distinct"), q("groups"), q("key"), q("last"), q("list"), q("primary"), q("update"), q("unique"), q("into"),
		q("insert"), q("references"), q("nulls"), q("hash"), q("than"), q("less"), q("maxvalue"), q("tablespace"), q("materialized"), q("recursive"), q("foreign"), q("collate"),
		q("exclude"), q("ilike"), q("show"), q("describe"), q("tables"), q("databases"), q("autoincrement"), q("AUTO_INCREMENT"), q("Key"), q("GROUPS")}
	tblPool   = []ident{bare("t1"), bare("t2"), bare("users_1"), bare("ord"), q("My Table"), bare("T3")}
	schemaP   = []ident{bare("s1"), bare("pub"), q("Sch 1")}
	aliasPool = []ident{bare("x"), bare("y"), bare("z1"), q("al 1"), bare("w_2")}
	fnPool    = []string{"lower", "upper", "coalesce", "my_fn", "abs", "count", "sum", "max", "min", "avg", "concat_ws", "F2"}
	aggPool   = []string{"count", "sum", "max", "min", "avg", "array_agg", "string_agg"}
	typePool  = []string{"INT", "INTEGER", "TEXT", "VARCHAR(10)", "NUMERIC(10,2)", "BOOLEAN", "DATE", "BIGINT", "DECIMAL(5)", "TIMESTAMP"}
	ctePool   = []ident{bare("cte1"), bare("cte2"), bare("recent"), q("C T E")}
)

func (g *G) pick(pool []ident, label string) ident {
	return pool[rapid.IntRange(0, len(pool)-1).Draw(g.T, label)]
}

func (g *G) column() ident {
	if g.F.QuotedKeywordID && g.chance(6, "kwcol") {
		g.use("quoted_keyword_ident")
		if g.F.Corners && g.chance(50, "kwcol2") {
			return g.pick(colKwPool2, "kwcolname2")
		}
		return g.pick(colKwPool, "kwcolname")
	}
	if (g.F.QuotedOddNames || g.F.QuotedDotName || g.F.QuotedDigitsName) && g.chance(5, "oddcol") {
		var pool []ident
		if g.F.QuotedOddNames {
			pool = append(pool, q("1abc"), q("a*b"), q("9"+"_x"), q("*"+"x"))
		}
		if g.F.QuotedDotName {
			pool = append(pool, q("a.b"), q("t1.c"))
		}
		if g.F.QuotedDigitsName {
			pool = append(pool, q("12"), q("0"))
		}
		g.use("quoted_odd_ident")
		return g.pick(pool, "oddcolname")
	}
	return g.pick(colPool, "col")
}

// ---------------------------------------------------------------- statement container

// Stmt is a generated statement.
type Stmt struct {
	Toks  []Tok
	Node  ast.Statement
	Kind  string
	Names *Names
	Stats map[string]int
}

// SQL renders tokens with single spaces (canonical layout).
func SQL(toks []Tok) string {
	var b strings.Builder
	for i, t := range toks {
		if i > 0 {
			b.WriteByte(' ')
		}
		b.WriteString(t.Text)
	}
	return b.String()
}

// Lexemes converts statement tokens to G-LEX lexemes (for hostile layouts).
func Lexemes(toks []Tok) []lexgen.Lexeme {
	out := make([]lexgen.Lexeme, 0, len(toks))
	for _, t := range toks {
		r, err := lexgen.RefLex(t.Text)
		if err != nil || len(r) != 1 {
			panic("sqlgen: token " + t.Text + " is not one lexeme of the reference grammar")
		}
		l := lexgen.Lexeme{Kind: r[0].Kind, Text: t.Text, Value: r[0].Value}
		if t.KW && r[0].Kind == lexgen.KWord {
			l.Class = "kw"
		}
		out = append(out, l)
	}
	return out
}

// TableName draws a table name (possibly schema-qualified / quoted) and returns its source
// spelling and the value the tree stores; the name is recorded as a written table.
func (g *G) TableName() (src, name string) {
	t := g.tableName()
	return t.src, t.name
}
