// Package corrupt is G-CORRUPT: token-level corruptions of a valid statement.
package corrupt

import (
	"pgregory.net/rapid"
	"verif/gen/sqlgen"
)

// Dictionary of tokens used for replacement / insertion.
var Dict = []sqlgen.Tok{
	{Text: ")"}, {Text: "("}, {Text: ","}, {Text: "]"}, {Text: "FROM", KW: true}, {Text: "WHERE", KW: true}, {Text: "AND", KW: true},
	{Text: "="}, {Text: "+"}, {Text: "x1"}, {Text: "42"}, {Text: "'s'"}, {Text: "THEN", KW: true}, {Text: "BY", KW: true},
	{Text: "AS", KW: true}, {Text: "ON", KW: true}, {Text: "."}, {Text: "*"}, {Text: "NOT", KW: true}, {Text: "NULL", KW: true},
	{Text: "IN", KW: true}, {Text: "::"}, {Text: "END", KW: true}, {Text: "||"},
}

// Result is a corrupted token list.
type Result struct {
	Toks  []sqlgen.Tok
	Kind  string
	First int // index of the first token that differs from the original (== len for pure truncation)
}

func clone(t []sqlgen.Tok) []sqlgen.Tok { return append([]sqlgen.Tok{}, t...) }

// Apply draws one corruption of toks (len(toks) >= 2).
func Apply(t *rapid.T, toks []sqlgen.Tok) Result {
	n := len(toks)
	i := rapid.IntRange(0, n-1).Draw(t, "cpos")
	switch rapid.IntRange(0, 5).Draw(t, "ckind") {
	case 0: // delete
		out := append(clone(toks[:i]), toks[i+1:]...)
		return Result{out, "delete", i}
	case 1: // duplicate
		out := append(clone(toks[:i+1]), toks[i:]...)
		return Result{out, "duplicate", i + 1}
	case 2: // swap adjacent
		if i+1 >= n {
			i = n - 2
		}
		out := clone(toks)
		out[i], out[i+1] = out[i+1], out[i]
		return Result{out, "swap", i}
	case 3: // replace
		d := rapid.SampledFrom(Dict).Draw(t, "cdict")
		out := clone(toks)
		out[i] = d
		return Result{out, "replace", i}
	case 4: // insert
		d := rapid.SampledFrom(Dict).Draw(t, "cdict")
		out := append(clone(toks[:i]), append([]sqlgen.Tok{d}, toks[i:]...)...)
		return Result{out, "insert", i}
	default: // truncate after i tokens (at least one kept)
		if i == 0 {
			i = 1
		}
		return Result{clone(toks[:i]), "truncate", i}
	}
}

// InsertStray inserts a token that no viable prefix can be continued with
// ("]" while no "[" is open) at a drawn position; the parser must reject
// exactly there.
func InsertStray(t *rapid.T, toks []sqlgen.Tok) (Result, bool) {
	limit := len(toks)
	for k, tk := range toks {
		if tk.Text == "[" {
			limit = k
			break
		}
	}
	if limit < 1 {
		return Result{}, false
	}
	i := rapid.IntRange(1, limit).Draw(t, "straypos")
	out := append(clone(toks[:i]), append([]sqlgen.Tok{{Text: "]"}}, toks[i:]...)...)
	return Result{out, "stray_bracket", i}, true
}
