package lexgen

import (
	"strings"
	"unicode/utf8"

	"pgregory.net/rapid"
)

// Lexeme is one generated lexical element.
type Lexeme struct {
	Kind  string `json:"kind"`
	Text  string `json:"text"`  // spelling in the source
	Value string `json:"value"` // decoded value the tokenizer must report
	// Class: for words "kw" (documented core keyword: must be typed as a keyword),
	// "id" (contains a digit, underscore or non-ASCII letter: must be an identifier), "any".
	Class string `json:"class,omitempty"`
}

// Core keywords every document lists; everything else spelled with letters only
// may be typed either way.
var CoreKeywords = []string{
	"SELECT", "FROM", "WHERE", "AND", "OR", "NOT", "AS", "ON", "IN", "IS", "NULL", "LIKE", "BETWEEN",
	"CASE", "WHEN", "THEN", "ELSE", "END", "HAVING", "LIMIT", "OFFSET", "INSERT", "INTO", "VALUES",
	"UPDATE", "SET", "DELETE", "CREATE", "TABLE", "DROP", "ALTER", "WITH", "UNION", "ALL", "DISTINCT",
	"EXISTS", "JOIN", "USING", "DESC", "ASC", "TRUE", "FALSE", "OVER", "PARTITION", "EXCEPT", "INTERSECT",
	"BY", "GROUP", "ORDER", "LEFT", "RIGHT", "INNER", "OUTER", "FULL", "CROSS", "NATURAL",
}

var coreSet = func() map[string]bool {
	m := map[string]bool{}
	for _, k := range CoreKeywords {
		m[k] = true
	}
	return m
}()

func IsCore(w string) bool { return coreSet[strings.ToUpper(w)] }

var identPool = []string{"a1", "b_2", "col_x", "t1", "tbl_2", "x9", "user_id", "_tmp", "Köln_1", "名前1", "é_x", "naïve_2", "Δx_1", "áb_1", "Users_1", "MiXed_9"}
var anyWords = []string{"foo", "bar", "users", "orders", "id", "name", "total", "qty", "zzz", "price"}

var Operators = []string{
	"+", "-", "*", "/", "%", "=", "<>", "!=", "<", "<=", ">", ">=", "||", "|", "&", "&&", "::", ":",
	"->", "->>", "#>", "#>>", "#-", "@>", "<@", "@@", "@", "?", "?|", "?&", "~", "~*", "!~", "!~*", "=>", "!", "#",
}
var Puncts = []string{"(", ")", "[", "]", ",", ";", "."}

// Features gates generator features that a listed known finding turned off.
type Features struct {
	StringStartsWithDoubledQuote bool // ”” / ”'a' : content starting with an escaped quote
	TrailingComment              bool // a comment after the last lexeme
	Comments                     bool
}

func AllFeatures() Features {
	return Features{true, true, true}
}

func caseVariant(t *rapid.T, w string, label string) string {
	switch rapid.IntRange(0, 3).Draw(t, label) {
	case 0:
		return strings.ToUpper(w)
	case 1:
		return strings.ToLower(w)
	case 2:
		return strings.ToUpper(w[:1]) + strings.ToLower(w[1:])
	default:
		b := []byte(strings.ToLower(w))
		for i := range b {
			if i%2 == 1 && b[i] >= 'a' && b[i] <= 'z' {
				b[i] -= 32
			}
		}
		return string(b)
	}
}

var plainChunks = []string{"a", "Z", "0", " ", "  ", "x y", "select", "FROM", "--", "/*", "*/", "#", "$", "$$", "\"", "`", ";", ",", "(", "%", "_", "é", "名", "𝄞", "\t", "@", "?", ":", ".", "’", "‘", "“hi”", "«", "»"}

var unicodeEscapes = []struct{ src, val string }{
	{`\u0041`, "A"}, {`\u00e9`, "é"}, {`\u00E9`, "é"}, {`\u540d`, "名"}, {`\u0027`, "'"}, {`\u005C`, "\\"}, {`\u2019`, "’"}, {`\u0020`, " "},
}

// GenString draws a single-quoted literal.
func GenString(t *rapid.T, f Features) Lexeme {
	n := rapid.IntRange(0, 6).Draw(t, "strparts")
	var src, val strings.Builder
	src.WriteByte('\'')
	for i := 0; i < n; i++ {
		k := rapid.IntRange(0, 14).Draw(t, "strpart")
		switch k {
		case 0:
			if i == 0 && !f.StringStartsWithDoubledQuote {
				src.WriteString("q")
				val.WriteString("q")
				continue
			}
			src.WriteString("''")
			val.WriteByte('\'')
		case 1:
			src.WriteString(`\\`)
			val.WriteByte('\\')
		case 2:
			src.WriteString(`\'`)
			val.WriteByte('\'')
		case 3:
			src.WriteString(`\"`)
			val.WriteByte('"')
		case 4:
			src.WriteString("\\`")
			val.WriteByte('`')
		case 5:
			src.WriteString(`\n`)
			val.WriteByte('\n')
		case 6:
			src.WriteString(`\r`)
			val.WriteByte('\r')
		case 7:
			src.WriteString(`\t`)
			val.WriteByte('\t')
		case 8:
			src.WriteString("\n")
			val.WriteString("\n")
		case 9:
			// the documented \uXXXX escape (tokenizer/doc.go): four hex digits, either case
			u := rapid.SampledFrom(unicodeEscapes).Draw(t, "uescape")
			src.WriteString(u.src)
			val.WriteString(u.val)
		default:
			c := rapid.SampledFrom(plainChunks).Draw(t, "chunk")
			src.WriteString(c)
			val.WriteString(c)
		}
	}
	src.WriteByte('\'')
	return Lexeme{Kind: KString, Text: src.String(), Value: val.String()}
}

func genDollar(t *rapid.T) Lexeme {
	tag := rapid.SampledFrom([]string{"", "", "t", "body", "fn_1"}).Draw(t, "tag")
	n := rapid.IntRange(0, 4).Draw(t, "dparts")
	var val strings.Builder
	for i := 0; i < n; i++ {
		val.WriteString(rapid.SampledFrom([]string{"a", " ", "'", "''", "\\", "\n", "select 1", "--", "/*", "\"", "$", "x$y", "é"}).Draw(t, "dchunk"))
	}
	v := val.String()
	d := "$" + tag + "$"
	if strings.Contains(v+"$", d) || strings.Contains(v, "$$") || strings.HasSuffix(v, "$") {
		v = strings.ReplaceAll(v, "$", "S")
	}
	return Lexeme{Kind: KString, Text: d + v + d, Value: v}
}

func genQuotedIdent(t *rapid.T, q byte) Lexeme {
	n := rapid.IntRange(1, 4).Draw(t, "qparts")
	var src, val strings.Builder
	src.WriteByte(q)
	chunks := []string{"a", "B", "select", "from", "a b", "'", "--", "/*", "1", ".", "é", "名", "\\", "$", ";"}
	for i := 0; i < n; i++ {
		k := rapid.IntRange(0, 6).Draw(t, "qpart")
		switch {
		case k == 0:
			src.WriteByte(q)
			src.WriteByte(q)
			val.WriteByte(q)
		case k == 1 && q == '`':
			src.WriteString("\"")
			val.WriteString("\"")
		case k == 1:
			src.WriteString("`")
			val.WriteString("`")
		default:
			c := rapid.SampledFrom(chunks).Draw(t, "qchunk")
			src.WriteString(c)
			val.WriteString(c)
		}
	}
	src.WriteByte(q)
	kind := KQIdent
	if q == '`' {
		kind = KBIdent
	}
	return Lexeme{Kind: kind, Text: src.String(), Value: val.String()}
}

func genNumber(t *rapid.T) Lexeme {
	ip := rapid.SampledFrom([]string{"0", "1", "7", "42", "007", "1234567890", "99999999999999999999"}).Draw(t, "int")
	s := ip
	switch rapid.IntRange(0, 5).Draw(t, "numform") {
	case 1:
		s = ip + "." + rapid.SampledFrom([]string{"0", "5", "25", "000", "123456789"}).Draw(t, "frac")
	case 2:
		s = ip + rapid.SampledFrom([]string{"e", "E"}).Draw(t, "e") + rapid.SampledFrom([]string{"", "+", "-"}).Draw(t, "sign") + rapid.SampledFrom([]string{"0", "9", "10", "308"}).Draw(t, "exp")
	case 3:
		s = ip + "." + rapid.SampledFrom([]string{"5", "75"}).Draw(t, "frac") + rapid.SampledFrom([]string{"e", "E"}).Draw(t, "e") + rapid.SampledFrom([]string{"", "+", "-"}).Draw(t, "sign") + rapid.SampledFrom([]string{"3", "12"}).Draw(t, "exp")
	}
	return Lexeme{Kind: KNumber, Text: s, Value: s}
}

// GenLexeme draws one lexeme of any kind.
func GenLexeme(t *rapid.T, f Features) Lexeme {
	switch rapid.IntRange(0, 15).Draw(t, "lexkind") {
	case 0, 1:
		w := caseVariant(t, rapid.SampledFrom(CoreKeywords).Draw(t, "kw"), "kwcase")
		return Lexeme{Kind: KWord, Text: w, Value: w, Class: "kw"}
	case 2, 3:
		w := rapid.SampledFrom(identPool).Draw(t, "ident")
		return Lexeme{Kind: KWord, Text: w, Value: w, Class: "id"}
	case 4:
		w := rapid.SampledFrom(anyWords).Draw(t, "word")
		return Lexeme{Kind: KWord, Text: w, Value: w, Class: "any"}
	case 5:
		return genQuotedIdent(t, '"')
	case 6:
		return genQuotedIdent(t, '`')
	case 7:
		return genNumber(t)
	case 8, 9:
		return GenString(t, f)
	case 10:
		if rapid.IntRange(0, 2).Draw(t, "dollar") == 0 {
			return genDollar(t)
		}
		p := rapid.SampledFrom([]string{"$1", "$2", "$10", "$999", "@p1", "@name_1", "@Ünï_1"}).Draw(t, "ph")
		return Lexeme{Kind: KPlace, Text: p, Value: p}
	case 11, 12, 13:
		o := rapid.SampledFrom(Operators).Draw(t, "op")
		return Lexeme{Kind: KOp, Text: o, Value: o}
	default:
		p := rapid.SampledFrom(Puncts).Draw(t, "punct")
		return Lexeme{Kind: KPunct, Text: p, Value: p}
	}
}

// ---------------------------------------------------------------- separators

var wsSeps = []string{" ", "  ", "\t", "\n", "\r\n", " \n ", "\n\n", "\t \t", "   \n\t"}
var lineComments = []string{"--", "-- c", "-- select 'x' from", "--/* not block", "-- it's", "--\t\"q\"", "-- é名"}
var blockComments = []string{"/**/", "/* c */", "/* select 'a' */", "/* it's */", "/*\n multi\n line */", "/* -- */", "/* \" ` */", "/*é名*/", "/***/", "/* * / */"}

// SepClass names.
const (
	SepNone  = "none"
	SepWS    = "ws"
	SepLineC = "linecomment"
	SepBlkC  = "blockcomment"
	SepMixed = "mixed"
)

// Sep is a rendered separator: text plus the comments inside it.
type Sep struct {
	Class string
	Text  string
}

func genSep(t *rapid.T, f Features, allowNone bool, label string) Sep {
	k := rapid.IntRange(0, 9).Draw(t, label)
	if !f.Comments && k >= 6 {
		k = 1
	}
	switch {
	case k == 0 && allowNone:
		return Sep{SepNone, ""}
	case k <= 5:
		return Sep{SepWS, rapid.SampledFrom(wsSeps).Draw(t, label+"ws")}
	case k == 6:
		return Sep{SepLineC, rapid.SampledFrom([]string{"", " ", "\n"}).Draw(t, label+"pre") + rapid.SampledFrom(lineComments).Draw(t, label+"lc") + "\n" + rapid.SampledFrom([]string{"", "  ", "\n"}).Draw(t, label+"post")}
	case k == 7:
		return Sep{SepBlkC, rapid.SampledFrom([]string{"", " ", "\n"}).Draw(t, label+"pre") + rapid.SampledFrom(blockComments).Draw(t, label+"bc") + rapid.SampledFrom([]string{"", " ", "\n"}).Draw(t, label+"post")}
	default:
		var b strings.Builder
		n := rapid.IntRange(2, 4).Draw(t, label+"n")
		for i := 0; i < n; i++ {
			switch rapid.IntRange(0, 2).Draw(t, label+"m") {
			case 0:
				b.WriteString(rapid.SampledFrom(wsSeps).Draw(t, label+"ws"))
			case 1:
				b.WriteString(rapid.SampledFrom(lineComments).Draw(t, label+"lc") + "\n")
			default:
				b.WriteString(rapid.SampledFrom(blockComments).Draw(t, label+"bc"))
			}
		}
		return Sep{SepMixed, b.String()}
	}
}

// CanAbut reports whether two lexemes may be written with no separator: the
// reference lexer must read the concatenation back as exactly those two
// lexemes, and the pair must not be one of the forms no document settles.
func CanAbut(a, b Lexeme) bool {
	if a.Kind == KNumber && (b.Kind == KWord || b.Kind == KNumber || b.Text == "." || b.Kind == KPlace || b.Kind == KQIdent || b.Kind == KBIdent || b.Kind == KString) {
		return false
	}
	if a.Text == "." && b.Kind == KNumber {
		return false
	}
	if (a.Kind == KWord || a.Kind == KPlace) && (b.Kind == KWord || b.Kind == KNumber || b.Kind == KPlace || b.Kind == KString || b.Kind == KQIdent || b.Kind == KBIdent) {
		return false // word$1, word'str' (prefixed-string forms), word"q": undocumented
	}
	if (a.Kind == KString || a.Kind == KQIdent || a.Kind == KBIdent) && (b.Kind == KString || b.Kind == KQIdent || b.Kind == KBIdent || b.Kind == KWord || b.Kind == KNumber) {
		return false
	}
	if a.Kind == KOp && (a.Text == "@" || a.Text == "$" || a.Text == ":" || a.Text == "?" || a.Text == "!" || a.Text == "#") && (b.Kind == KWord || b.Kind == KNumber || b.Kind == KPlace) {
		return false // @name, :name, ?1 are placeholder spellings
	}
	toks, err := RefLex(a.Text + b.Text)
	if err != nil || len(toks) != 2 {
		return false
	}
	return toks[0].Kind == a.Kind && toks[0].End == len(a.Text) && toks[1].Kind == b.Kind && toks[0].Value == a.Value && toks[1].Value == b.Value
}

// ---------------------------------------------------------------- rendering

// ExpTok is an expected token with its generated position.
type ExpTok struct {
	Kind      string `json:"kind"`
	Value     string `json:"value"`
	Class     string `json:"class,omitempty"`
	Text      string `json:"text"`
	Off       int    `json:"off"`
	End       int    `json:"end"`
	Line      int    `json:"line"` // 1-based
	Col       int    `json:"col"`  // 1-based, bytes == runes when LineASCII
	EndLine   int    `json:"end_line"`
	EndCol    int    `json:"end_col"`
	LineASCII bool   `json:"line_ascii"` // start line is ASCII and tab-free up to the token
	EndASCII  bool   `json:"end_ascii"`
}

// Text is a rendered lexeme sequence.
type Text struct {
	Src      string   `json:"src"`
	Tokens   []ExpTok `json:"tokens"`
	Comments []ExpTok `json:"comments"`
	SepClass []string `json:"sep_classes"`
}

// Locate fills line/column fields of an element spanning [off,end) of src.
func Locate(src string, off, end int) (line, col int, ascii bool, eline, ecol int, eascii bool) {
	line, col, ascii = pos(src, off)
	eline, ecol, eascii = pos(src, end)
	return
}

func pos(src string, off int) (line, col int, ascii bool) {
	line = 1 + strings.Count(src[:off], "\n")
	ls := strings.LastIndexByte(src[:off], '\n') + 1
	seg := src[ls:off]
	ascii = true
	for i := 0; i < len(seg); i++ {
		if seg[i] >= 0x80 || seg[i] == '\t' {
			ascii = false
		}
	}
	col = utf8.RuneCountInString(seg) + 1
	return
}

// Render lays lexemes out with the given separators (len(seps) == len(lx)+1:
// leading, between..., trailing) and computes expectations with the reference
// lexer for comment extraction.
func Render(lx []Lexeme, seps []Sep) Text {
	var b strings.Builder
	var out Text
	for i, l := range lx {
		b.WriteString(seps[i].Text)
		out.SepClass = append(out.SepClass, seps[i].Class)
		off := b.Len()
		b.WriteString(l.Text)
		out.Tokens = append(out.Tokens, ExpTok{Kind: l.Kind, Value: l.Value, Class: l.Class, Text: l.Text, Off: off, End: b.Len()})
	}
	b.WriteString(seps[len(lx)].Text)
	out.SepClass = append(out.SepClass, seps[len(lx)].Class)
	out.Src = b.String()
	// comments: every separator is whitespace and complete comments only, so
	// the reference lexer applied to the separator text alone finds them.
	offBase := 0
	for i := range seps {
		toks, _ := RefLex(seps[i].Text)
		for _, c := range toks {
			if c.Kind == KComment {
				out.Comments = append(out.Comments, ExpTok{Kind: KComment, Value: c.Value, Text: c.Value, Off: offBase + c.Off, End: offBase + c.End})
			}
		}
		offBase += len(seps[i].Text)
		if i < len(lx) {
			offBase += len(lx[i].Text)
		}
	}
	fill := func(e *ExpTok) {
		e.Line, e.Col, e.LineASCII, e.EndLine, e.EndCol, e.EndASCII = Locate(out.Src, e.Off, e.End)
	}
	for i := range out.Tokens {
		fill(&out.Tokens[i])
	}
	for i := range out.Comments {
		fill(&out.Comments[i])
	}
	return out
}

// GenSeps draws separators for lx.
func GenSeps(t *rapid.T, f Features, lx []Lexeme, label string) []Sep {
	seps := make([]Sep, len(lx)+1)
	seps[0] = genSep(t, f, true, label+"lead")
	for i := 1; i < len(lx); i++ {
		seps[i] = genSep(t, f, CanAbut(lx[i-1], lx[i]), label+"sep")
	}
	tf := f
	if !f.TrailingComment {
		tf.Comments = false
	}
	seps[len(lx)] = genSep(t, tf, true, label+"trail")
	// a comment opener must not fuse with the lexeme before it ("-" + "-- c",
	// "/" + "/* c */", "#" + "-- c"): check with the reference lexer, pad if so.
	for i := 1; i <= len(lx); i++ {
		s := seps[i].Text
		if s == "" || s[0] == ' ' || s[0] == '\t' || s[0] == '\n' || s[0] == '\r' {
			continue
		}
		toks, err := RefLex(lx[i-1].Text + s)
		if err != nil || len(toks) < 2 || toks[0].End != len(lx[i-1].Text) || toks[1].Kind != KComment || toks[1].Off != len(lx[i-1].Text) {
			seps[i].Text = " " + s
		}
	}
	// a line comment swallows what follows on its line: every separator that
	// ends in a line comment already ends with "\n" by construction.
	return seps
}

// GenLexemes draws 1..max lexemes.
func GenLexemes(t *rapid.T, f Features, max int) []Lexeme {
	n := rapid.IntRange(1, max).Draw(t, "nlex")
	lx := make([]Lexeme, n)
	for i := range lx {
		lx[i] = GenLexeme(t, f)
	}
	return lx
}

// Recase returns the same lexemes with keyword-class words in another letter case.
func Recase(t *rapid.T, lx []Lexeme) []Lexeme {
	out := make([]Lexeme, len(lx))
	copy(out, lx)
	for i := range out {
		if out[i].Kind == KWord && out[i].Class == "kw" {
			w := caseVariant(t, out[i].Text, "recase")
			out[i].Text, out[i].Value = w, w
		}
	}
	return out
}

// Locate2 returns the 1-based line and rune column of byte offset off and
// whether the line prefix before it is ASCII and tab-free.
func Locate2(src string, off int) (line, col int, ascii bool) { return pos(src, off) }
