// Package lexgen is G-LEX: a lexeme-sequence generator with a reference lexer
// written from the documented lexical grammar (DESIGN.md appendix B), not from
// tokenizer.go.
package lexgen

import (
	"fmt"
	"strconv"
	"strings"
	"unicode"
	"unicode/utf8"
)

// Kinds of the reference grammar.
const (
	KWord    = "word"   // keyword or bare identifier (classification is by list)
	KQIdent  = "qident" // "quoted identifier"
	KBIdent  = "bident" // `backticked identifier`
	KNumber  = "number"
	KString  = "string" // '...' and $tag$...$tag$
	KPlace   = "placeholder"
	KOp      = "op"
	KPunct   = "punct"
	KComment = "comment"
)

// RefTok is one element read by the reference lexer.
type RefTok struct {
	Kind  string `json:"kind"`
	Value string `json:"value"` // decoded value (source spelling for words, numbers, ops)
	Off   int    `json:"off"`   // byte offset of first character
	End   int    `json:"end"`   // byte offset just past the last character
}

var ops3 = []string{"->>", "#>>", "!~*"}
var ops2 = []string{"->", "#>", "#-", "@>", "<@", "@@", "?|", "?&", "||", "&&", "::", "<=", ">=", "<>", "!=", "!~", "~*", "=>"}

const op1 = "+-*/%=<>!:|&@#?~"
const punct1 = "()[],;."

func isWordStart(r rune) bool { return unicode.IsLetter(r) || r == '_' }
func isWordPart(r rune) bool {
	return unicode.IsLetter(r) || unicode.IsDigit(r) || r == '_' || unicode.Is(unicode.Mn, r) || unicode.Is(unicode.Mc, r) || unicode.Is(unicode.Pc, r)
}
func isDigit(b byte) bool { return b >= '0' && b <= '9' }

// RefLex reads s by maximal munch.  Comments are returned as tokens of kind
// KComment (value = exact text, without the newline that ends a line comment).
func RefLex(s string) ([]RefTok, error) {
	var out []RefTok
	i := 0
	for i < len(s) {
		c := s[i]
		switch {
		case c == ' ' || c == '\t' || c == '\n' || c == '\r':
			i++
		case c == '-' && strings.HasPrefix(s[i:], "--"):
			j := strings.IndexByte(s[i:], '\n')
			end := len(s)
			if j >= 0 {
				end = i + j
			}
			out = append(out, RefTok{KComment, s[i:end], i, end})
			i = end
		case c == '/' && strings.HasPrefix(s[i:], "/*"):
			j := strings.Index(s[i+2:], "*/")
			if j < 0 {
				return out, fmt.Errorf("unterminated block comment at %d", i)
			}
			end := i + 2 + j + 2
			out = append(out, RefTok{KComment, s[i:end], i, end})
			i = end
		case c == '\'':
			v, end, err := readSingle(s, i)
			if err != nil {
				return out, err
			}
			out = append(out, RefTok{KString, v, i, end})
			i = end
		case c == '"':
			v, end, err := readDelim(s, i, '"', false)
			if err != nil {
				return out, err
			}
			out = append(out, RefTok{KQIdent, v, i, end})
			i = end
		case c == '`':
			v, end, err := readDelim(s, i, '`', true)
			if err != nil {
				return out, err
			}
			out = append(out, RefTok{KBIdent, v, i, end})
			i = end
		case isDigit(c):
			end := readNumber(s, i)
			out = append(out, RefTok{KNumber, s[i:end], i, end})
			i = end
		case c == '$':
			// $1 | $$..$$ | $tag$..$tag$
			if i+1 < len(s) && isDigit(s[i+1]) {
				j := i + 1
				for j < len(s) && isDigit(s[j]) {
					j++
				}
				out = append(out, RefTok{KPlace, s[i:j], i, j})
				i = j
				continue
			}
			j := i + 1
			for j < len(s) {
				r, sz := utf8.DecodeRuneInString(s[j:])
				if (j == i+1 && isWordStart(r)) || (j > i+1 && isWordPart(r)) {
					j += sz
					continue
				}
				break
			}
			if j < len(s) && s[j] == '$' {
				tag := s[i : j+1]
				k := strings.Index(s[j+1:], tag)
				if k < 0 {
					return out, fmt.Errorf("unterminated dollar string at %d", i)
				}
				end := j + 1 + k + len(tag)
				out = append(out, RefTok{KString, s[j+1 : j+1+k], i, end})
				i = end
				continue
			}
			return out, fmt.Errorf("stray $ at %d", i)
		case c == '@' && i+1 < len(s) && s[i+1] != '@' && s[i+1] != '>':
			r, _ := utf8.DecodeRuneInString(s[i+1:])
			if isWordStart(r) {
				j := i + 1
				for j < len(s) {
					r, sz := utf8.DecodeRuneInString(s[j:])
					if !isWordPart(r) {
						break
					}
					j += sz
				}
				out = append(out, RefTok{KPlace, s[i:j], i, j})
				i = j
				continue
			}
			out = append(out, RefTok{KOp, "@", i, i + 1})
			i++
		case strings.IndexByte(punct1, c) >= 0:
			out = append(out, RefTok{KPunct, string(c), i, i + 1})
			i++
		case strings.IndexByte(op1, c) >= 0:
			op := string(c)
			for _, o := range ops3 {
				if strings.HasPrefix(s[i:], o) {
					op = o
					goto found
				}
			}
			for _, o := range ops2 {
				if strings.HasPrefix(s[i:], o) {
					op = o
					goto found
				}
			}
		found:
			out = append(out, RefTok{KOp, op, i, i + len(op)})
			i += len(op)
		default:
			r, sz := utf8.DecodeRuneInString(s[i:])
			if isWordStart(r) {
				j := i + sz
				for j < len(s) {
					r, sz := utf8.DecodeRuneInString(s[j:])
					if !isWordPart(r) {
						break
					}
					j += sz
				}
				out = append(out, RefTok{KWord, s[i:j], i, j})
				i = j
				continue
			}
			return out, fmt.Errorf("character %q at %d is outside the reference grammar", r, i)
		}
	}
	return out, nil
}

func readNumber(s string, i int) int {
	j := i
	for j < len(s) && isDigit(s[j]) {
		j++
	}
	if j+1 < len(s) && s[j] == '.' && isDigit(s[j+1]) {
		j++
		for j < len(s) && isDigit(s[j]) {
			j++
		}
	}
	if j < len(s) && (s[j] == 'e' || s[j] == 'E') {
		k := j + 1
		if k < len(s) && (s[k] == '+' || s[k] == '-') {
			k++
		}
		if k < len(s) && isDigit(s[k]) {
			for k < len(s) && isDigit(s[k]) {
				k++
			}
			j = k
		}
	}
	return j
}

// readSingle decodes '...' with ” and the documented backslash escapes.
func readSingle(s string, i int) (string, int, error) {
	var b strings.Builder
	j := i + 1
	for j < len(s) {
		c := s[j]
		switch {
		case c == '\'':
			if j+1 < len(s) && s[j+1] == '\'' {
				b.WriteByte('\'')
				j += 2
				continue
			}
			return b.String(), j + 1, nil
		case c == '\\':
			if j+1 >= len(s) {
				return "", 0, fmt.Errorf("dangling backslash at %d", j)
			}
			switch s[j+1] {
			case '\\', '\'', '"', '`':
				b.WriteByte(s[j+1])
			case 'n':
				b.WriteByte('\n')
			case 'r':
				b.WriteByte('\r')
			case 't':
				b.WriteByte('\t')
			case 'u':
				if j+6 > len(s) {
					return "", 0, fmt.Errorf("incomplete \\u escape at %d", j)
				}
				v, err := strconv.ParseUint(s[j+2:j+6], 16, 32)
				if err != nil {
					return "", 0, fmt.Errorf("bad \\u escape at %d", j)
				}
				b.WriteRune(rune(v))
				j += 4
			default:
				return "", 0, fmt.Errorf("undocumented escape \\%c at %d", s[j+1], j)
			}
			j += 2
		default:
			b.WriteByte(c)
			j++
		}
	}
	return "", 0, fmt.Errorf("unterminated string at %d", i)
}

func readDelim(s string, i int, q byte, multiline bool) (string, int, error) {
	var b strings.Builder
	j := i + 1
	for j < len(s) {
		c := s[j]
		if c == q {
			if j+1 < len(s) && s[j+1] == q {
				b.WriteByte(q)
				j += 2
				continue
			}
			return b.String(), j + 1, nil
		}
		if c == '\n' && !multiline {
			return "", 0, fmt.Errorf("newline in quoted identifier at %d", j)
		}
		b.WriteByte(c)
		j++
	}
	return "", 0, fmt.Errorf("unterminated quoted identifier at %d", i)
}
