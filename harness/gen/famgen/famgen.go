// Package famgen builds input families f(n): texts of about n bytes that grow in one
// direction only (more items, more lines, more statements, a longer literal ...), so that
// the cost of processing them can be compared across a geometric ladder of sizes.
package famgen

import (
	"fmt"
	"strconv"
	"strings"
)

// Family renders a text of roughly n bytes.
type Family struct {
	Name   string
	Render func(n int) string
}

func rep(unit string, n int) string {
	k := n / len(unit)
	if k < 1 {
		k = 1
	}
	return strings.Repeat(unit, k)
}

// repIndexed repeats unit with every "{i}" replaced by the repetition number, so that each
// repetition is a distinct lexeme (caches, tag matching and de-duplication see n different items).
func repIndexed(unit string, n int) string {
	var sb strings.Builder
	sb.Grow(n + 32)
	for i := 0; sb.Len() < n; i++ {
		sb.WriteString(strings.ReplaceAll(unit, "{i}", strconv.Itoa(i)))
	}
	return sb.String()
}

// Composition wraps a repeated unit: Pre + unit (Sep unit)* + Post.
type Composition struct {
	Name           string
	Pre, Sep, Post string
	// Kind of unit the hole takes: "expr", "stmt", "row", "select"
	Unit string
}

var Compositions = []Composition{
	{"select_list", "SELECT ", ", ", " FROM t", "expr"},
	{"select_list_one_per_line", "SELECT\n  ", ",\n  ", "\nFROM t", "expr"},
	{"or_chain", "SELECT 1 FROM t WHERE ", " OR ", "", "expr"},
	{"and_chain_lines", "SELECT 1 FROM t WHERE ", "\n  AND ", "", "expr"},
	{"plus_chain", "SELECT ", " + ", "", "expr"},
	{"concat_chain", "SELECT ", " || ", "", "expr"},
	{"in_list", "SELECT 1 FROM t WHERE a IN (", ", ", ")", "expr"},
	{"function_args", "SELECT f(", ", ", ")", "expr"},
	{"group_by_list", "SELECT 1 FROM t GROUP BY ", ", ", "", "expr"},
	{"order_by_list", "SELECT 1 FROM t ORDER BY ", ", ", "", "expr"},
	{"case_whens", "SELECT CASE WHEN ", " THEN 1 WHEN ", " THEN 2 END", "expr"},
	{"values_rows", "INSERT INTO t VALUES (", "), (", ")", "expr"},
	{"update_set", "UPDATE t SET a = ", ", a = ", "", "expr"},
	{"statements", "", ";\n", ";", "stmt"},
	{"statements_one_line", "", "; ", "", "stmt"},
	{"union_chain", "", " UNION ALL ", "", "select"},
	{"cte_list", "WITH c0 AS (", "), cx AS (", ") SELECT 1", "select"},
	{"join_chain", "SELECT 1 FROM t JOIN u ON ", " JOIN u ON ", "", "expr"},
}

// Compose renders Pre + unit (Sep unit)* + Post with about n bytes.
func (c Composition) Compose(unit string, n int) string {
	k := (n - len(c.Pre) - len(c.Post)) / (len(unit) + len(c.Sep))
	if k < 1 {
		k = 1
	}
	var sb strings.Builder
	sb.Grow(n + 64)
	sb.WriteString(c.Pre)
	indexed := strings.Contains(unit, "{i}")
	for i := 0; i < k; i++ {
		if i > 0 {
			sb.WriteString(c.Sep)
		}
		if indexed {
			sb.WriteString(strings.ReplaceAll(unit, "{i}", strconv.Itoa(i)))
		} else {
			sb.WriteString(unit)
		}
	}
	sb.WriteString(c.Post)
	return sb.String()
}

// DefaultUnit is the unit used by the fixed catalogue.
func DefaultUnit(kind string) string {
	switch kind {
	case "stmt", "select":
		return "SELECT a, b FROM t WHERE c = 1"
	}
	return "a"
}

// Lexical families: growth that is not a repetition of grammar units.
var Lexical = []Family{
	{"line_comments", func(n int) string { return "SELECT 1\n" + rep("-- a comment line\n", n) + "FROM t" }},
	{"block_comments_one_line", func(n int) string { return "SELECT 1 " + rep("/* c */ ", n) + "FROM t" }},
	{"one_block_comment", func(n int) string { return "SELECT 1 /* " + rep("c", n) + " */ FROM t" }},
	{"huge_literal", func(n int) string { return "SELECT '" + rep("x", n) + "'" }},
	{"literal_with_doubled_quotes", func(n int) string { return "SELECT '" + rep("a''", n) + "'" }},
	{"many_literals", func(n int) string { return "SELECT " + rep("'abc', ", n) + "'z'" }},
	{"huge_identifier", func(n int) string { return "SELECT " + rep("x", n) + " FROM t" }},
	{"quoted_identifiers", func(n int) string { return "SELECT " + rep("\"a b\", ", n) + "\"z\" FROM t" }},
	{"dollar_quoted", func(n int) string { return "SELECT $q$" + rep("body ", n) + "$q$" }},
	{"blanks", func(n int) string { return "SELECT 1" + rep(" ", n) + "FROM t" }},
	{"blank_lines", func(n int) string { return "SELECT 1" + rep("\n", n) + "FROM t" }},
	{"tabs", func(n int) string { return "SELECT\t" + rep("a,\t", n) + "b FROM t" }},
	{"numbers", func(n int) string { return "SELECT " + rep("1234.5e10, ", n) + "1" }},
	{"operators_soup", func(n int) string { return "SELECT a " + rep("<> a ", n) }},
	{"qualified_names", func(n int) string { return "SELECT " + rep("s1.t1.c1, ", n) + "x FROM t" }},
	{"cast_chain", func(n int) string { return "SELECT a" + rep("::int", n) }},
	{"subscript_chain", func(n int) string { return "SELECT a" + rep("[1]", n) }},
	{"nested_legal_repeated", func(n int) string {
		return "SELECT " + rep(strings.Repeat("(", 40)+"1"+strings.Repeat(")", 40)+", ", n) + "1"
	}},
	{"late_lexical_error", func(n int) string { return "SELECT " + rep("a, ", n) + "'unterminated" }},
	{"late_syntax_error", func(n int) string { return "SELECT " + rep("a, ", n) + "FROM FROM" }},
	{"garbage_words", func(n int) string { return rep("foo bar ", n) }},
	{"not_chain_over_limit", func(n int) string { return "SELECT " + rep("NOT ", n) + "a" }},
	{"parens_over_limit", func(n int) string {
		k := n / 2
		return "SELECT " + strings.Repeat("(", k) + "1" + strings.Repeat(")", k)
	}},
	{"non_ascii", func(n int) string { return "SELECT " + rep("'é😀', ", n) + "1" }},
	{"crlf_lines", func(n int) string { return "SELECT\r\n" + rep("a,\r\n", n) + "b FROM t" }},
	// chains that alternate between operators of one precedence level
	{"mixed_additive_chain", func(n int) string { return "SELECT " + rep("a + a - ", n) + "a" }},
	{"mixed_multiplicative_chain", func(n int) string { return "SELECT " + rep("a * a / a % ", n) + "a" }},
	{"mixed_json_chain", func(n int) string { return "SELECT a " + rep("-> 'k' ->> 'j' #> 'p' ", n) }},
	{"mixed_comparison_and_or", func(n int) string { return "SELECT 1 FROM t WHERE " + rep("a = 1 AND b <> 2 OR ", n) + "c" }},
	{"mixed_set_operations", func(n int) string {
		return rep("SELECT a FROM t UNION SELECT a FROM u UNION ALL SELECT a FROM v EXCEPT ", n) + "SELECT a FROM w"
	}},
	{"mixed_cast_subscript_chain", func(n int) string { return "SELECT a" + rep("::int[1]", n) }},
	// long lexemes: close to the byte limit while still under the token limit
	{"long_identifiers_list", func(n int) string { return "SELECT " + repIndexed("a_rather_long_column_name_{i}, ", n) + "z FROM t" }},
	{"long_literals_list", func(n int) string { return "SELECT " + repIndexed("'a string literal of some length {i}', ", n) + "1" }},
	{"wide_statements", func(n int) string {
		return repIndexed("INSERT INTO some_table_name_{i} (first_column_name, second_column_name) VALUES ('a fairly long literal value number {i}', 'and another one of similar length');\n", n)
	}},
	{"long_comment_lines", func(n int) string {
		return repIndexed("-- a comment line that goes on for a while, number {i}\nSELECT {i};\n", n)
	}},
	// every repetition a different lexeme
	{"distinct_identifiers", func(n int) string { return "SELECT " + repIndexed("col{i}, ", n) + "z FROM t" }},
	{"distinct_qualified", func(n int) string { return "SELECT " + repIndexed("t{i}.c{i}, ", n) + "z FROM t" }},
	{"distinct_literals", func(n int) string { return "SELECT " + repIndexed("'s{i}', ", n) + "'z'" }},
	{"distinct_quoted_identifiers", func(n int) string { return "SELECT " + repIndexed("\"q{i}\", ", n) + "z FROM t" }},
	{"distinct_unclosed_dollar_tags", func(n int) string { return "SELECT c FROM t WHERE a IN (" + repIndexed("$p{i}$, ", n) + "1)" }},
	{"distinct_dollar_quoted", func(n int) string { return "SELECT " + repIndexed("$t{i}$x$t{i}$, ", n) + "1" }},
	{"distinct_identifiers_with_dollar", func(n int) string { return "SELECT " + repIndexed("col$a{i}$x, ", n) + "z FROM t" }},
	{"distinct_placeholders", func(n int) string {
		return "SELECT 1 FROM t WHERE a IN (" + repIndexed("${i}, :p{i}, @v{i}, ", n) + "?)"
	}},
	{"distinct_functions", func(n int) string { return "SELECT " + repIndexed("fn{i}(a), ", n) + "1" }},
	{"distinct_tables_joined", func(n int) string { return "SELECT 1 FROM t0" + repIndexed(" JOIN t{i} ON t{i}.a = t0.a", n) }},
	{"distinct_aliases", func(n int) string { return "SELECT " + repIndexed("a AS x{i}, ", n) + "1 FROM t" }},
	{"distinct_ctes", func(n int) string {
		return "WITH c AS (SELECT 1)" + repIndexed(", c{i} AS (SELECT {i})", n) + " SELECT 1"
	}},
	{"distinct_comments", func(n int) string { return "SELECT 1\n" + repIndexed("-- note {i}\n/* block {i} */\n", n) + "FROM t" }},
	{"distinct_statements", func(n int) string { return repIndexed("SELECT c{i} FROM t{i} WHERE a = {i};\n", n) }},
	{"distinct_numbers", func(n int) string { return "SELECT " + repIndexed("{i}.5, ", n) + "1" }},
	{"distinct_keywords_misspelt", func(n int) string { return repIndexed("SELEC{i} FORM{i} ", n) }},
	// two things growing together, or one lexeme growing next to many small ones
	{"comments_after_long_indent", func(n int) string { return "SELECT a\n" + rep(" ", n/2) + rep("/*c*/", n/2) + "\nFROM t" }},
	{"dollar_long_tag_dollars_in_body", func(n int) string {
		tag := "$" + rep("a", n/3) + "$"
		return "SELECT " + tag + rep("$", n/3) + " " + tag
	}},
	{"same_tag_dollar_strings", func(n int) string { return "SELECT " + rep("$$x y$$, ", n) + "1" }},
	{"same_named_tag_dollar_strings", func(n int) string { return "SELECT " + rep("$q$x y$q$, ", n) + "1" }},
	{"long_dotted_name", func(n int) string { return "SELECT * FROM a" + rep(".a", n) }},
	{"cast_many_type_parameters", func(n int) string { return "SELECT CAST(a AS VARCHAR(" + rep("1,", n) + "1)) FROM t" }},
	{"pg_cast_many_type_parameters", func(n int) string { return "SELECT a::NUMERIC(" + rep("1,", n) + "1) FROM t" }},
	{"match_against_mode_words", func(n int) string { return "SELECT * FROM t WHERE MATCH (a) AGAINST ('x'" + rep(" a", n) + ")" }},
	{"long_first_table_many_joins", func(n int) string { return "SELECT * FROM " + rep("x", n/2) + rep(" JOIN t ON a = b", n/2) }},
	{"slice_chain", func(n int) string { return "SELECT a" + rep("[1:2]", n) + " FROM t" }},
	{"subscript_slice_alternating_chain", func(n int) string { return "SELECT a" + rep("[1][1:2]", n) + " FROM t" }},
	{"json_cast_alternating_chain", func(n int) string { return "SELECT a" + rep("->'k'::int", n) + " FROM t" }},
	{"many_tautologies", func(n int) string { return "SELECT * FROM t WHERE " + rep("1 = 1 OR ", n) + "1 = 1" }},
	{"many_union_null_probes", func(n int) string { return "SELECT a, b FROM t" + rep(" UNION SELECT NULL, NULL", n) }},
	{"unparsable_aliased_from_lines", func(n int) string {
		// text the parser rejects, every line with its own table and an alias of the same length
		var sb strings.Builder
		for i := 0; sb.Len() < n; i++ {
			fmt.Fprintf(&sb, "SELECT x FROM t%07d AS a%07d WHERE ;\n", i, i)
		}
		return sb.String()
	}},
	// many rejected statements: every error carries its own text
	{"many_errors_one_line", func(n int) string { return rep("SELECT FROM;", n) }},
	{"many_errors_many_lines", func(n int) string { return rep("SELECT FROM;\n", n) }},
	{"many_lexical_garbage_statements_one_line", func(n int) string { return rep("SELECT a b c d;", n) }},
	{"in_subquery_over_limit", func(n int) string { return "SELECT a FROM t WHERE " + rep("a IN (SELECT a FROM t WHERE ", n) + "1" }},
	{"error_far_into_long_line", func(n int) string {
		return "SELECT 1;" + rep(" ", n) + "SELECT a FROM t WHERE " + strings.Repeat("a IN (SELECT a FROM t WHERE ", 150)
	}},
	// DDL, MERGE and the MySQL forms: wide lists inside one statement
	{"create_table_columns", func(n int) string {
		return "CREATE TABLE t (" + repIndexed("c{i} INT NOT NULL DEFAULT {i}, ", n) + "z INT)"
	}},
	{"create_table_constraints", func(n int) string {
		return "CREATE TABLE t (a INT, " + repIndexed("CONSTRAINT k{i} CHECK (a <> {i}), ", n) + "PRIMARY KEY (a))"
	}},
	{"create_table_foreign_keys", func(n int) string {
		return "CREATE TABLE t (a INT, " + repIndexed("FOREIGN KEY (a) REFERENCES r{i} (id) ON DELETE CASCADE, ", n) + "UNIQUE (a))"
	}},
	{"partition_definitions", func(n int) string {
		return "CREATE TABLE t (a INT) PARTITION BY RANGE (a) (" + repIndexed("PARTITION p{i} VALUES LESS THAN ({i}), ", n) + "PARTITION pmax VALUES LESS THAN MAXVALUE)"
	}},
	{"partition_in_values", func(n int) string {
		return "CREATE TABLE t (a INT) PARTITION BY LIST (a) (PARTITION p0 VALUES IN (" + repIndexed("{i}, ", n) + "0))"
	}},
	{"index_columns", func(n int) string { return "CREATE INDEX ix ON t (" + repIndexed("c{i} DESC NULLS LAST, ", n) + "z)" }},
	{"drop_table_list", func(n int) string { return "DROP TABLE IF EXISTS " + repIndexed("s.t{i}, ", n) + "z CASCADE" }},
	{"truncate_list", func(n int) string { return "TRUNCATE TABLE " + repIndexed("t{i}, ", n) + "z" }},
	{"merge_when_clauses", func(n int) string {
		return "MERGE INTO t USING s ON t.a = s.a" + repIndexed(" WHEN MATCHED AND s.b = {i} THEN UPDATE SET c = {i}", n) + " WHEN NOT MATCHED THEN INSERT (a) VALUES (s.a)"
	}},
	{"merge_insert_values", func(n int) string {
		return "MERGE INTO t USING s ON t.a = s.a WHEN NOT MATCHED THEN INSERT VALUES (" + repIndexed("s.c{i}, ", n) + "1)"
	}},
	{"replace_rows", func(n int) string {
		return "REPLACE INTO t (a, b) VALUES " + repIndexed("({i}, 'v{i}'), ", n) + "(0, 'z')"
	}},
	{"on_duplicate_key_assignments", func(n int) string {
		return "INSERT INTO t (a) VALUES (1) ON DUPLICATE KEY UPDATE " + repIndexed("c{i} = c{i} + 1, ", n) + "z = 0"
	}},
	{"on_conflict_assignments", func(n int) string {
		return "INSERT INTO t (a) VALUES (1) ON CONFLICT (a) DO UPDATE SET " + repIndexed("c{i} = {i}, ", n) + "z = 0"
	}},
	{"returning_list", func(n int) string { return "DELETE FROM t WHERE a = 1 RETURNING " + repIndexed("c{i}, ", n) + "z" }},
	{"insert_column_list", func(n int) string { return "INSERT INTO t (" + repIndexed("c{i}, ", n) + "z) SELECT * FROM s" }},
	{"window_partition_list", func(n int) string {
		return "SELECT sum(a) OVER (PARTITION BY " + repIndexed("c{i}, ", n) + "z ORDER BY a) FROM t"
	}},
	{"grouping_sets_list", func(n int) string {
		return "SELECT a FROM t GROUP BY GROUPING SETS (" + repIndexed("(a, c{i}), ", n) + "())"
	}},
	{"array_elements", func(n int) string { return "SELECT ARRAY[" + repIndexed("{i}, ", n) + "0]" }},
	{"match_against_columns", func(n int) string {
		return "SELECT a FROM t WHERE MATCH (" + repIndexed("c{i}, ", n) + "z) AGAINST ('x' IN BOOLEAN MODE)"
	}},
	{"alter_statements", func(n int) string { return repIndexed("ALTER TABLE t{i} ADD COLUMN c{i} INT;\n", n) }},
	{"show_describe_statements", func(n int) string { return repIndexed("SHOW COLUMNS FROM t{i};\nDESCRIBE t{i};\n", n) }},
	{"from_list_tables", func(n int) string { return "SELECT 1 FROM " + repIndexed("t{i} a{i}, ", n) + "z" }},
	{"using_join_columns", func(n int) string { return "SELECT 1 FROM t JOIN u USING (" + repIndexed("c{i}, ", n) + "z)" }},
	{"for_update_of_list", func(n int) string { return "SELECT 1 FROM t FOR UPDATE OF " + repIndexed("t{i}, ", n) + "t" }},
}
